#!/bin/bash
# cold build of the harness from files on disk only (offline)
set -e
cd "$(dirname "$0")"
export CARGO_NET_OFFLINE=true
export CARGO_TARGET_DIR=/verif/target
mkdir -p /verif/target /verif/evidence /verif/replays-out
cd /verif/harness && cargo build --release --offline 2>&1 | tail -3
