//! C07 - payload iteration returns every file's exact content under its own metadata.

use super::built::*;
use crate::engine::*;
use crate::gen::builder::*;
use crate::gen::filepkg::{self, ModelFile};
use crate::gen::pool;
use crate::refimpl::cpio::{self, CpioSpec};
use crate::refimpl::digests;
use proptest::prelude::*;
use serde::{Deserialize, Serialize};
use std::sync::Arc;

pub struct C07;

#[derive(Serialize, Deserialize, Clone, Debug)]
pub enum C07Case {
    Built(BuilderConfig),
    /// hand-encoded package (no compressor tag): header lists `files` in order; the archive holds
    /// the non-ghost ones (when `omit_ghost`) in the order given by sorting on `order`
    Foreign {
        files: Vec<ModelFile>,
        order: Vec<u16>,
        stripped: bool,
        omit_ghost: bool,
    },
    Asset(u8),
}

pub struct Yielded {
    pub path: String,
    pub size: usize,
    pub digest: Option<(rpm::DigestAlgorithm, String)>,
    pub linkto: String,
    pub mode: u16,
    pub content: Vec<u8>,
}

pub fn iterate(p: &rpm::Package) -> Result<Vec<Yielded>, (String, String)> {
    let r = panics::catch(|| -> Result<Vec<Yielded>, String> {
        let mut out = vec![];
        for f in p.files().map_err(|e| format!("files(): {e}"))? {
            let f = f.map_err(|e| format!("iteration error after {} files: {e}", out.len()))?;
            out.push(Yielded {
                path: f.metadata.path.as_os_str().to_string_lossy().to_string(),
                size: f.metadata.size,
                digest: f.metadata.digest.as_ref().map(|d| (d.algorithm(), d.as_hex().to_string())),
                linkto: f.metadata.linkto.clone(),
                mode: f.metadata.mode.raw_mode(),
                content: f.content,
            });
        }
        Ok(out)
    });
    match r {
        Ok(Ok(v)) => Ok(v),
        Ok(Err(e)) => Err(("iteration-error".into(), e)),
        Err(p) => Err(("iteration-panic".into(), p)),
    }
}

pub fn check_built_iteration(b: &BuiltPkg, p: &rpm::Package, which: &str) -> Result<(), (String, String)> {
    let got = iterate(p).map_err(|(c, d)| (c, format!("{which}: {d}")))?;
    if got.len() != b.files.len() {
        return Err(("file-count".into(), format!("{which}: {} files supplied, {} yielded", b.files.len(), got.len())));
    }
    for (i, ((f, content), y)) in b.files.iter().zip(got.iter()).enumerate() {
        if y.path != f.abs_path() {
            return Err(("sequence".into(), format!("{which}: item {i} is {:?}, expected {:?} (files ordered by archive path)", y.path, f.abs_path())));
        }
        if &y.content != content {
            return Err(("content".into(), format!("{which}: {:?}: yielded {} bytes that differ from the {} bytes supplied ({})", y.path, y.content.len(), content.len(), super::common::first_diff(&y.content, content))));
        }
        if y.content.len() != y.size {
            return Err(("size".into(), format!("{which}: {:?}: {} bytes yielded, recorded size {}", y.path, y.content.len(), y.size)));
        }
        match &y.digest {
            Some((rpm::DigestAlgorithm::Sha2_256, h)) if *h == digests::sha256_hex(&[&y.content]) => {}
            other => return Err(("digest".into(), format!("{which}: {:?}: recorded digest {:?} is not the sha256 of the yielded bytes", y.path, other))),
        }
    }
    Ok(())
}

fn foreign_package(files: &[ModelFile], order: &[u16], stripped: bool, omit_ghost: bool) -> (Vec<u8>, Vec<usize>) {
    let mut idx: Vec<usize> = (0..files.len()).filter(|i| !(omit_ghost && files[*i].is_ghost())).collect();
    idx.sort_by_key(|i| (order.get(*i).copied().unwrap_or(0), *i));
    let mut archive: Vec<CpioSpec> = idx
        .iter()
        .map(|&i| {
            let f = &files[i];
            if stripped {
                CpioSpec::stripped(i as u32, f.content.clone())
            } else {
                CpioSpec::newc(&f.cpio_name(), f.mode as u32, i as u32 + 1, f.content.clone())
            }
        })
        .collect();
    archive.push(CpioSpec::trailer());
    let mut main = filepkg::basic_entries("foreign");
    main.extend(filepkg::file_entries(files, stripped));
    (filepkg::wrap(main, cpio::write_archive(&archive), true).encode(), idx)
}

impl Property for C07 {
    type Case = C07Case;
    const ID: &'static str = "C07";
    fn new(_t: Tier) -> Self {
        C07
    }
    fn rule(&self) -> String {
        "built packages: EVERY absolute path length 2..=4094 (one long component; the 300 longest also as nested directories) followed by a second file; 0..8 files with sizes {0..8, <300, 4095..4097, 32/64 KiB +-1, 128 KiB, 1 MiB} x {zeros, text, incompressible}, every compressor (levels across the documented ranges), standard and forced large-file (stripped) format, iterated on the built value and after write+parse; foreign hand-encoded packages whose archive omits %ghost files, permutes the header order or uses stripped entries; the six assets. Non-trivial = at least 2 files of different sizes, or a stripped/ghost/reordered archive; distinct by case hash.".into()
    }
    fn assumptions(&self) -> Vec<String> {
        vec![
            "foreign archives are written by the reference cpio writer (refimpl::cpio) and carry no compressor tag".into(),
            "the large-file format is reached through the verif-hooks feature, not through > 4 GiB of content: the 32-bit counters of the real large-file path are not exercised".into(),
        ]
    }
    fn required_labels(&self, _t: Tier) -> Vec<&'static str> {
        vec!["built", "foreign", "asset", "level-zstd-22", "level-xz-9", "level-gzip-0", "level-bzip2-1", "forced-large-file-format", "foreign-ghost-omitted", "foreign-reordered", "foreign-stripped", "size-mod4-0", "size-mod4-1", "size-mod4-2", "size-mod4-3", "comp-none", "comp-gzip", "comp-zstd", "comp-xz", "comp-bzip2", "big-file"]
    }
    fn phases(&self, tier: Tier) -> Vec<Phase<C07Case>> {
        vec![
            Phase::Enumerate { name: "assets", total: 6, exhaustive: false, gen: Arc::new(|i| Some(C07Case::Asset(i as u8))) },
            Phase::Random {
                name: "built",
                cases: tier.pick(4_000, 100_000),
                strat: Arc::new(|| {
                    (config_any(CfgParams { max_files: 8, sizes: size_mixed(), comp: comp_fast(), sign_prob: 0.0, file_kinds: true, force_large_prob: 0.25, rich_meta: false }), any::<u16>())
                        .prop_map(|(mut c, pseudo)| {
                            // now and then one regular file (explicit mode) comes from a kernel pseudo
                            // file: stat() says 0 bytes, reading returns more
                            if pseudo % 8 == 0 {
                                let n = c.files.len().max(1);
                                if let Some(f) = c.files.iter_mut().skip((pseudo as usize / 8) % n).find(|f| matches!(f.mode, ModeSpec::Regular(_)) && f.symlink.is_none()) {
                                    f.content.kind = 7;
                                }
                            }
                            C07Case::Built(c)
                        })
                        .boxed()
                }),
            },
            Phase::Enumerate {
                name: "every-documented-level",
                total: 51 * 3,
                exhaustive: true,
                gen: Arc::new(|i| {
                    // gzip 0..=9, zstd 1..=22, xz 0..=9, bzip2 1..=9 crossed with three file sets
                    let l = i % 51;
                    let (kind, level) = if l < 10 { (2u8, l as i32) } else if l < 32 { (3, (l - 10) as i32 + 1) } else if l < 42 { (4, (l - 32) as i32) } else { (5, (l - 42) as i32 + 1) };
                    let mut c = BuilderConfig::minimal("levels");
                    c.compression = Comp { kind, level: Some(level) };
                    let mk = |name: &str, size: u32, kind: u8| FileSpec { dot_style: false, components: vec!["opt".into(), name.into()], content: ContentSpec { size, kind, seed: 11 }, mode: ModeSpec::Regular(0o644), user: None, group: None, flags: 0, caps: None, symlink: None, mtime: 5, verify: None, mode_as_int: 0 };
                    c.files = match i / 51 {
                        0 => vec![],
                        1 => vec![mk("a", 5, 1), mk("b", 0, 0), mk("c", 4097, 2)],
                        _ => vec![mk("big", 70_000, 2), mk("text", 20_000, 1)],
                    };
                    Some(C07Case::Built(c))
                }),
            },
            // "names of any length < 4096": every absolute path length 2..=4094 (cpio name "." + path,
            // i.e. every name length up to 4095), as one long component or as nested directories,
            // followed by a second file so that a mis-sized name shifts what is read next
            Phase::Enumerate {
                name: "every-path-length",
                total: 4093 + 300,
                exhaustive: true,
                gen: Arc::new(|i| {
                    // all lengths as one component; the 300 longest again as nested directories
                    let nested = i >= 4093;
                    let len = if nested { 4094 - (i - 4093) as usize } else { 2 + i as usize }; // length of "/…"
                    let mut c = BuilderConfig::minimal("pathlen");
                    c.compression = Comp { kind: if len % 2 == 0 { 0 } else { 2 }, level: None };
                    let mk = |components: Vec<String>, size: u32| FileSpec { dot_style: false, components, content: ContentSpec { size, kind: 1, seed: 3 }, mode: ModeSpec::Regular(0o644), user: None, group: None, flags: 0, caps: None, symlink: None, mtime: 5, verify: None, mode_as_int: 0 };
                    let comps: Vec<String> = if nested && len > 8 {
                        // "/d/d/…/xxxx": components of one letter, the last one takes the rest
                        let dirs = ((len - 4) / 2).min(40);
                        let mut v: Vec<String> = (0..dirs).map(|_| "d".to_string()).collect();
                        v.push("x".repeat(len - 1 - 2 * dirs));
                        v
                    } else {
                        vec!["n".repeat(len - 1)]
                    };
                    c.files = vec![mk(comps, 1 + (len % 7) as u32), mk(vec!["z".into()], 9)];
                    Some(C07Case::Built(c))
                }),
            },
            Phase::Random {
                name: "built-all-levels",
                cases: tier.pick(300, 20_000),
                strat: Arc::new(|| {
                    config_any(CfgParams { max_files: 4, sizes: size_small(), comp: comp_any(true), sign_prob: 0.0, file_kinds: false, force_large_prob: 0.2, rich_meta: false })
                        .prop_map(C07Case::Built)
                        .boxed()
                }),
            },
            Phase::Random {
                name: "foreign",
                cases: tier.pick(20_000, 600_000),
                strat: Arc::new(|| {
                    (filepkg::model_files(6, 40), proptest::collection::vec(any::<u16>(), 6), any::<bool>(), prop::bool::weighted(0.7), prop::bool::weighted(0.5))
                        .prop_map(|(files, order, stripped, omit_ghost, reorder)| C07Case::Foreign { files, order: if reorder { order } else { vec![] }, stripped, omit_ghost })
                        .boxed()
                }),
            },
        ]
    }
    fn check(&self, case: &C07Case) -> Outcome {
        let mut o = Outcome::new();
        if let Err((c, d)) = inner(case, &mut o) {
            o.fail(&c, d);
        }
        o
    }
}

fn inner(case: &C07Case, o: &mut Outcome) -> Result<(), (String, String)> {
    match case {
        C07Case::Built(cfg) => {
            o.label("built");
            super::c06::label_config(cfg, o);
            if let Some(l) = cfg.compression.level {
                o.label(format!("level-{}-{}", cfg.compression.name(), l));
            }
            let mut sizes = std::collections::BTreeSet::new();
            for f in &cfg.files {
                o.label(format!("size-mod4-{}", f.content.size % 4));
                if f.content.pseudo_source().is_some() {
                    o.label("source-is-a-pseudo-file");
                }
                if f.content.size >= 65536 {
                    o.label("big-file");
                }
                sizes.insert(f.content.size);
            }
            if sizes.len() >= 2 || (cfg.force_large && !cfg.files.is_empty()) {
                o.nontrivial_key(fnv1a(serde_json::to_string(cfg).unwrap_or_default().as_bytes()));
            }
            let b = build_and_write(cfg)?;
            check_built_iteration(&b, &b.pkg, "built value")?;
            let p = parse_pkg(&b.bytes)?;
            check_built_iteration(&b, &p, "after write+parse")?;
        }
        C07Case::Foreign { files, order, stripped, omit_ghost } => {
            o.label("foreign");
            let (bytes, idx) = foreign_package(files, order, *stripped, *omit_ghost);
            let ghost_omitted = *omit_ghost && files.iter().any(|f| f.is_ghost());
            let reordered = idx.windows(2).any(|w| w[0] > w[1]);
            if ghost_omitted {
                o.label("foreign-ghost-omitted");
            }
            if reordered {
                o.label("foreign-reordered");
            }
            if *stripped && !files.is_empty() {
                o.label("foreign-stripped");
            }
            if ghost_omitted || reordered || (*stripped && !files.is_empty()) {
                o.nontrivial_key(fnv1a(&bytes));
            }
            let p = parse_pkg(&bytes)?;
            let got = iterate(&p)?;
            if got.len() != idx.len() {
                return Err(("file-count".into(), format!("archive holds {} entries, {} yielded", idx.len(), got.len())));
            }
            for (k, (&i, y)) in idx.iter().zip(got.iter()).enumerate() {
                let f = &files[i];
                if y.content != f.content {
                    return Err(("content".into(), format!("archive entry {k} ({:?}): wrong bytes yielded", f.path())));
                }
                if y.path != f.path() {
                    return Err(("pairing".into(), format!("archive entry {k} is {:?} (header file #{i}) but was paired with the metadata of {:?}", f.path(), y.path)));
                }
                if y.mode != f.mode || y.size != f.content.len() {
                    return Err(("pairing".into(), format!("{:?}: metadata mode {:#o}/size {} does not belong to this file (mode {:#o}, {} bytes)", f.path(), y.mode, y.size, f.mode, f.content.len())));
                }
            }
        }
        C07Case::Asset(i) => {
            o.label("asset");
            let name = pool::ASSETS[*i as usize % 6];
            let bytes = pool::asset_bytes(name);
            o.nontrivial_key(fnv1a(name.as_bytes()));
            let p = parse_pkg(&bytes)?;
            let got = iterate(&p)?;
            let entries = p.metadata.get_file_entries().map_err(|e| ("asset".to_string(), e.to_string()))?;
            let non_ghost = entries.iter().filter(|e| !e.flags.contains(rpm::FileFlags::GHOST)).count();
            if got.len() != non_ghost {
                return Err(("file-count".into(), format!("{name}: {} non-ghost files in the header, {} yielded", non_ghost, got.len())));
            }
            o.note = Some(format!("{name}: {} files", got.len()));
            for y in &got {
                match y.mode & 0o170000 {
                    0o100000 => {
                        if y.content.len() != y.size {
                            return Err(("size".into(), format!("{name}: {:?}: {} bytes yielded, recorded size {}", y.path, y.content.len(), y.size)));
                        }
                        let ok = match &y.digest {
                            Some((rpm::DigestAlgorithm::Md5, h)) => *h == digests::md5_hex(&[&y.content]),
                            Some((rpm::DigestAlgorithm::Sha2_256, h)) => *h == digests::sha256_hex(&[&y.content]),
                            None => y.content.is_empty(),
                            _ => true,
                        };
                        if !ok {
                            return Err(("digest".into(), format!("{name}: {:?}: content does not match the recorded digest", y.path)));
                        }
                    }
                    0o120000 => {
                        if y.content != y.linkto.as_bytes() {
                            return Err(("content".into(), format!("{name}: symlink {:?}: payload {:?} != link target {:?}", y.path, String::from_utf8_lossy(&y.content), y.linkto)));
                        }
                    }
                    _ => {}
                }
            }
        }
    }
    Ok(())
}
