//! C06 - everything given to the builder is read back unchanged.

use super::built::*;
use crate::engine::*;
use crate::gen::builder::*;
use crate::refimpl::digests;
use serde::{Deserialize, Serialize};
use std::sync::Arc;

pub struct C06;

#[derive(Serialize, Deserialize, Clone, Debug)]
pub struct C06Case(pub BuilderConfig);

macro_rules! expect_eq {
    ($o:expr, $clause:expr, $what:expr, $got:expr, $want:expr) => {
        {
            let (got, want) = ($got, $want);
            if !same(&got, &want) {
                return Err(($clause.to_string(), format!("{}: read back {:?}, supplied {:?}", $what, got, want)));
            }
        }
    };
}

fn same<T: PartialEq>(a: &T, b: &T) -> bool {
    a == b
}

fn s<'a>(r: Result<&'a str, rpm::Error>) -> Result<String, String> {
    r.map(|x| x.to_string()).map_err(|e| e.to_string())
}

pub fn verify_readback(cfg: &BuilderConfig, b: &BuiltPkg, o: &mut Outcome) -> Result<(), (String, String)> {
    let p = parse_pkg(&b.bytes)?;
    let m = &p.metadata;
    let r = panics::catch(|| -> Result<(), (String, String)> {
        expect_eq!(o, "scalar", "name", s(m.get_name()), Ok(cfg.name.clone()));
        expect_eq!(o, "scalar", "version", s(m.get_version()), Ok(cfg.version.clone()));
        expect_eq!(o, "scalar", "license", s(m.get_license()), Ok(cfg.license.clone()));
        expect_eq!(o, "scalar", "arch", s(m.get_arch()), Ok(cfg.arch.clone()));
        expect_eq!(o, "scalar", "summary", s(m.get_summary()), Ok(cfg.summary.clone()));
        if let Some(e) = cfg.epoch {
            expect_eq!(o, "scalar", "epoch", m.get_epoch().map_err(|e| e.to_string()), Ok(e));
        }
        if let Some(x) = &cfg.release {
            expect_eq!(o, "scalar", "release", s(m.get_release()), Ok(x.clone()));
        }
        if let Some(x) = &cfg.description {
            expect_eq!(o, "scalar", "description", s(m.get_description()), Ok(x.clone()));
        }
        if let Some(x) = &cfg.vendor {
            expect_eq!(o, "scalar", "vendor", s(m.get_vendor()), Ok(x.clone()));
        }
        if let Some(x) = &cfg.packager {
            expect_eq!(o, "scalar-packager", "packager", s(m.get_packager()), Ok(x.clone()));
        }
        if let Some(x) = &cfg.group {
            expect_eq!(o, "scalar-group", "group", s(m.get_group()), Ok(x.clone()));
        }
        if let Some(x) = &cfg.url {
            expect_eq!(o, "scalar", "url", s(m.get_url()), Ok(x.clone()));
        }
        if let Some(x) = &cfg.vcs {
            expect_eq!(o, "scalar", "vcs", s(m.get_vcs()), Ok(x.clone()));
        }
        if let Some(x) = &cfg.cookie {
            expect_eq!(o, "scalar", "cookie", s(m.get_cookie()), Ok(x.clone()));
        }
        if let Some(x) = &cfg.build_host {
            expect_eq!(o, "scalar", "build host", s(m.get_build_host()), Ok(x.clone()));
        }
        // scriptlets
        for sc in &cfg.scriptlets {
            let name = SCRIPT_KIND_NAMES[sc.kind as usize];
            let got: Result<(String, Option<u32>, Option<Vec<String>>), String> = if sc.kind < 8 {
                let r = match sc.kind {
                    0 => m.get_pre_install_script(),
                    1 => m.get_post_install_script(),
                    2 => m.get_pre_uninstall_script(),
                    3 => m.get_post_uninstall_script(),
                    4 => m.get_pre_trans_script(),
                    5 => m.get_post_trans_script(),
                    6 => m.get_pre_untrans_script(),
                    _ => m.get_post_untrans_script(),
                };
                r.map(|x| (x.script, x.flags.map(|f| f.bits()), x.program)).map_err(|e| e.to_string())
            } else {
                // no dedicated accessor: read the three tags directly
                m.header
                    .get_entry_data_as_string(rpm::IndexTag::RPMTAG_VERIFYSCRIPT)
                    .map(|body| {
                        (
                            body.to_string(),
                            m.header.get_entry_data_as_u32(rpm::IndexTag::RPMTAG_VERIFYSCRIPTFLAGS).ok(),
                            m.header.get_entry_data_as_string_array(rpm::IndexTag::RPMTAG_VERIFYSCRIPTPROG).ok().map(|v| v.to_vec()),
                        )
                    })
                    .map_err(|e| e.to_string())
            };
            let clause = if sc.kind == 8 { "scriptlet-verify" } else { "scriptlet" };
            expect_eq!(o, clause, format!("{name} scriptlet"), got, Ok((sc.body.clone(), sc.flags, sc.prog.clone())));
        }
        // dependencies: supplied list is a subsequence (in order) of the returned list
        for kind in 0u8..8 {
            let supplied: Vec<(String, u32, String)> = cfg.deps.iter().filter(|d| d.kind == kind).map(|d| {
                let dep = d.make();
                (dep.name, dep.flags.bits(), dep.version)
            }).collect();
            if supplied.is_empty() {
                continue;
            }
            let got = match kind {
                0 => m.get_requires(),
                1 => m.get_provides(),
                2 => m.get_conflicts(),
                3 => m.get_obsoletes(),
                4 => m.get_recommends(),
                5 => m.get_suggests(),
                6 => m.get_enhances(),
                _ => m.get_supplements(),
            }
            .map_err(|e| ("dependencies".to_string(), format!("dependency kind {kind}: {e}")))?;
            let got: Vec<(String, u32, String)> = got.into_iter().map(|d| (d.name, d.flags.bits(), d.version)).collect();
            let mut it = got.iter();
            for want in &supplied {
                if !it.any(|g| g == want) {
                    return Err(("dependencies".into(), format!("dependency kind {kind}: supplied {supplied:?} is not an in-order subsequence of {got:?}")));
                }
            }
        }
        // changelog
        if !cfg.changelog.is_empty() {
            let got: Vec<(String, u64, String)> = m.get_changelog_entries().map_err(|e| ("changelog".to_string(), e.to_string()))?.into_iter().map(|c| (c.name, c.timestamp, c.description)).collect();
            let want: Vec<(String, u64, String)> = cfg.changelog.iter().map(|(n, t, ts)| (n.clone(), *ts as u64, t.clone())).collect();
            expect_eq!(o, "changelog", "changelog entries", got, want);
        }
        // files
        let entries = m.get_file_entries().map_err(|e| ("files".to_string(), format!("get_file_entries: {e}")))?;
        if entries.len() != b.files.len() {
            return Err(("files".into(), format!("{} files supplied, {} file entries read back", b.files.len(), entries.len())));
        }
        for (f, content) in &b.files {
            let want_path = f.abs_path();
            let hits: Vec<&rpm::FileEntry> = entries.iter().filter(|e| e.path.as_os_str().to_str() == Some(want_path.as_str())).collect();
            if hits.len() != 1 {
                let all: Vec<String> = entries.iter().map(|e| e.path.to_string_lossy().to_string()).collect();
                return Err(("file-path".into(), format!("destination {:?} must be reported as {:?} exactly once; reported paths: {:?}", f.dest(), want_path, all)));
            }
            let e = hits[0];
            let what = |x: &str| format!("file {want_path:?} {x}");
            expect_eq!(o, "file-mode", what("mode"), e.mode.raw_mode(), f.expected_mode());
            // only supplied values are claimed by the statement (defaults are the library's business)
            if let Some(u) = &f.user {
                expect_eq!(o, "file-owner", what("user"), e.ownership.user.clone(), u.clone());
            }
            if let Some(g) = &f.group {
                expect_eq!(o, "file-owner", what("group"), e.ownership.group.clone(), g.clone());
            }
            expect_eq!(o, "file-flags", what("flags"), e.flags.bits(), f.expected_flag_bits());
            if let Some(c) = &crate::gen::builder::effective_caps(f) {
                if c.starts_with(char::is_whitespace) || c.ends_with(char::is_whitespace) {
                    o.label("caps-with-outer-whitespace");
                }
                expect_eq!(o, "file-caps", what("caps"), e.caps.clone(), Some(c.clone()));
            }
            if let Some(t) = &f.symlink {
                expect_eq!(o, "file-link", what("link target"), e.linkto.clone(), t.clone());
            }
            expect_eq!(o, "file-size", what("size"), e.size, content.len());
            // content digest: claimed for regular files (directories and links have no content)
            if f.expected_mode() & 0o170000 == 0o100000 {
                expect_eq!(o, "file-digest", what("digest"), e.digest.as_ref().map(|d| d.as_hex().to_string()), Some(digests::sha256_hex(&[content])));
            }
            let want_mtime = match cfg.source_date {
                Some(sd) => f.mtime.min(sd),
                None => f.mtime,
            };
            expect_eq!(o, "file-mtime", what("mtime"), e.modified_at.0, want_mtime);
        }
        // get_file_paths agrees
        let paths = m.get_file_paths().map_err(|e| ("files".to_string(), e.to_string()))?;
        let want: Vec<String> = b.files.iter().map(|(f, _)| f.abs_path()).collect();
        let got: Vec<String> = paths.iter().map(|p| p.as_os_str().to_string_lossy().to_string()).collect();
        expect_eq!(o, "file-path", "get_file_paths (in payload order)", got, want);
        Ok(())
    });
    match r {
        Ok(x) => x,
        Err(p) => Err(("accessor-panic".into(), p)),
    }
}

pub fn label_config(cfg: &BuilderConfig, o: &mut Outcome) {
    o.label(comp_label(&cfg.compression));
    if cfg.signer.is_some() {
        o.label("signed");
    }
    for f in &cfg.files {
        if f.components.len() == 1 {
            o.label("root-level-file");
        }
        if f.dot_style {
            o.label("dot-style-destination");
        }
        if matches!(f.mode, ModeSpec::Inherit(_)) {
            o.label("inherited-mode");
        }
        if f.caps.is_some() {
            o.label("file-with-caps");
        }
    }
    for sc in &cfg.scriptlets {
        o.label(format!("scriptlet-{}", SCRIPT_KIND_NAMES[sc.kind as usize]));
    }
    for d in &cfg.deps {
        o.label(format!("dep-kind-{}", d.kind));
    }
    if cfg.deps.last().is_some_and(|d| d.name == "zz-after") {
        o.label("dependency-also-generated-by-the-builder");
    }
    if cfg.deps.windows(2).any(|w| w[0].kind == w[1].kind && w[0].name == w[1].name) {
        o.label("same-name-dependencies-in-a-row");
    }
    if cfg.packager.is_some() {
        o.label("packager-set");
    }
    if cfg.group.is_some() {
        o.label("group-set");
    }
    if cfg.force_large {
        o.label("forced-large-file-format");
    }
    if cfg.reuse_source {
        o.label("one-source-path-rewritten");
    }
    if cfg.source_date_zone.is_some() && !cfg.changelog.is_empty() {
        o.label("zoned-changelog-times");
    }
    if cfg.name.len() >= 64 {
        o.label("long-name");
    }
    if cfg.setters_last && !cfg.files.is_empty() {
        o.label("setters-after-files");
    }
}

impl Property for C06 {
    type Case = C06Case;
    const ID: &'static str = "C06";
    fn new(_t: Tier) -> Self {
        C06
    }
    fn rule(&self) -> String {
        "random valid builder configurations (independent choice for every optional setter, NUL-free UTF-8 strings incl. empty/multi-line/multi-byte/long, 0..6 dependencies from all 14 constructors and 8 kinds, changelog, all 9 scriptlets with flags/interpreters, 0..8 files with '/' and './' destinations at depth 1..4, inherited and explicit modes, owners, flags, caps, symlinks, dirs; every compressor; signed and unsigned). Non-trivial = at least 3 optional inputs or at least 1 file; distinct by hash of the configuration.".into()
    }
    fn assumptions(&self) -> Vec<String> {
        vec![
            "destinations are unique and contain no empty/'.'/'..' components; strings are NUL-free; interpreter lists are non-empty".into(),
            "dependency lists are compared as in-order subsequences because the builder appends its own entries".into(),
        ]
    }
    fn required_labels(&self, _t: Tier) -> Vec<&'static str> {
        vec!["dependency-also-generated-by-the-builder", "zoned-changelog-times", "long-name", "setters-after-files", "same-name-dependencies-in-a-row", "root-level-file", "dot-style-destination", "inherited-mode", "comp-none", "comp-gzip", "comp-zstd", "comp-xz", "comp-bzip2", "signed", "scriptlet-verify", "scriptlet-pre_install", "dep-kind-0", "dep-kind-7", "packager-set", "group-set", "file-with-caps"]
    }
    fn phases(&self, tier: Tier) -> Vec<Phase<C06Case>> {
        vec![Phase::Random {
            name: "configurations",
            cases: tier.pick(10_000, 300_000),
            strat: Arc::new(|| {
                (config_any_reuse(CfgParams { max_files: 8, sizes: size_small(), comp: comp_mixed(), sign_prob: 0.15, file_kinds: true, force_large_prob: 0.0, rich_meta: true }), proptest::prelude::any::<u8>())
                    .prop_map(|(mut c, mirror)| {
                        // now and then the caller supplies, ahead of another dependency of the same
                        // kind, exactly what the builder also generates by itself (self-provides,
                        // rpmlib() requirements, user()/group() recommendations)
                        use crate::gen::builder::DepSpec;
                        let d = |kind: u8, ctor: u8, name: &str, version: &str| DepSpec { kind, ctor, name: name.to_string(), version: version.to_string() };
                        let pair = match mirror % 16 {
                            0 => Some((d(1, 1, &c.name, &c.version), d(1, 0, "zz-after", ""))),
                            1 => Some((d(1, 1, &format!("{}({})", c.name, c.arch), &c.version), d(1, 0, "zz-after", ""))),
                            2 => Some((d(0, 6, "CompressedFileNames", "3.0.4-1"), d(0, 0, "zz-after", ""))),
                            3 => Some((d(0, 6, ["FileDigests", "PayloadFilesHavePrefix", "PayloadIsZstd", "PayloadIsXz", "PayloadIsBzip2", "FileCaps"][(mirror / 16) as usize % 6], ["4.6.0-1", "4.0-1", "5.4.18-1", "5.2-1", "3.0.5-1", "4.6.1-1"][(mirror / 16) as usize % 6]), d(0, 0, "zz-after", ""))),
                            4 => c.files.iter().find_map(|f| f.user.clone()).map(|u: String| (d(4, 8, u.as_str(), ""), d(4, 0, "zz-after", ""))),
                            5 => c.files.iter().find_map(|f| f.group.clone()).map(|g: String| (d(4, 9, g.as_str(), ""), d(4, 0, "zz-after", ""))),
                            _ => None,
                        };
                        if let Some((same_as_generated, after)) = pair {
                            c.deps.insert(0, same_as_generated);
                            c.deps.push(after);
                        }
                        // the protected RSA key is slow; keep it rare
                        if c.signer == Some(1) && c.files.len() % 4 != 0 {
                            c.signer = Some(2);
                        }
                        C06Case(c)
                    })
                    .boxed()
            }),
        }]
    }
    fn check(&self, case: &C06Case) -> Outcome {
        let mut o = Outcome::new();
        let cfg = &case.0;
        label_config(cfg, &mut o);
        if cfg.optional_count() >= 3 || !cfg.files.is_empty() {
            o.nontrivial_key(fnv1a(serde_json::to_string(cfg).unwrap_or_default().as_bytes()));
        }
        let b = match build_and_write(cfg) {
            Ok(b) => b,
            Err((c, d)) => {
                o.fail(&c, d);
                return o;
            }
        };
        if let Err((c, d)) = verify_readback(cfg, &b, &mut o) {
            o.fail(&c, d);
        }
        o
    }
}
use proptest::strategy::Strategy;
