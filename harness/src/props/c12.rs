//! C12 - extraction recreates the files and never touches anything outside the target.
//! Every case runs in a forked child that chroot()s into a fresh jail, so even a successful
//! escape cannot reach the real system; the jail outside the target is snapshotted before/after.

use super::built::*;
use crate::engine::*;
use crate::gen::builder::*;
use crate::gen::filepkg::{self, ModelFile};
use crate::refimpl::cpio;
use proptest::prelude::*;
use serde::{Deserialize, Serialize};
use std::collections::BTreeMap;
use std::os::unix::fs::{MetadataExt, PermissionsExt};
use std::path::{Path, PathBuf};
use std::sync::Arc;

pub struct C12;

#[derive(Serialize, Deserialize, Clone, Debug)]
pub enum C12Case {
    /// a package built by the library from a consistent file tree
    Built(BuilderConfig),
    /// hand-encoded hostile package (no compressor tag). scenario 0: one extraction into a fresh
    /// target; 1: the target's parent directories do not exist; 2: the entries are split into
    /// two packages (the first two entries, the rest) extracted one after the other into the
    /// same target
    Hostile {
        files: Vec<ModelFile>,
        #[serde(default)]
        scenario: u8,
    },
}

const TARGET_PARENT: &str = "d1/d2/d3/d4/d5/d6/d7/d8";

/// R10: path -> (type, mode bits, size, content hash, link target); mtimes ignored
type Snapshot = BTreeMap<String, (char, u32, u64, u64, String)>;

fn snapshot(root: &Path, skip: &Path) -> Snapshot {
    let mut out = BTreeMap::new();
    let mut stack = vec![root.to_path_buf()];
    while let Some(d) = stack.pop() {
        let Ok(rd) = std::fs::read_dir(&d) else { continue };
        for e in rd.flatten() {
            let p = e.path();
            if p == skip {
                continue;
            }
            let Ok(md) = std::fs::symlink_metadata(&p) else { continue };
            let rel = p.strip_prefix(root).unwrap_or(&p).to_string_lossy().to_string();
            let ft = md.file_type();
            let entry = if ft.is_symlink() {
                ('l', 0, 0, 0, std::fs::read_link(&p).map(|t| t.to_string_lossy().to_string()).unwrap_or_default())
            } else if ft.is_dir() {
                stack.push(p.clone());
                ('d', md.mode() & 0o7777, 0, 0, String::new())
            } else if ft.is_file() {
                let c = std::fs::read(&p).unwrap_or_default();
                ('f', md.mode() & 0o7777, md.len(), fnv1a(&c), String::new())
            } else {
                ('s', md.mode() & 0o7777, 0, 0, String::new())
            };
            out.insert(rel, entry);
        }
    }
    out
}

fn make_jail() -> Result<TempDir, (String, String)> {
    let j = TempDir::new("jail");
    let io = |e: std::io::Error| ("harness-io".to_string(), e.to_string());
    std::fs::create_dir_all(j.0.join(TARGET_PARENT)).map_err(io)?;
    std::fs::create_dir_all(j.0.join("outside/dir")).map_err(io)?;
    std::fs::write(j.0.join("outside/keep.txt"), b"sentinel").map_err(io)?;
    std::fs::write(j.0.join("outside/dir/inner.txt"), b"inner sentinel").map_err(io)?;
    std::fs::create_dir_all(j.0.join("etc")).map_err(io)?;
    std::fs::write(j.0.join("etc/passwd"), b"root:x:0:0").map_err(io)?;
    std::fs::write(j.0.join(TARGET_PARENT).join("sibling.txt"), b"next to the target").map_err(io)?;
    std::fs::write(j.0.join("top.txt"), b"at the jail root").map_err(io)?;
    Ok(j)
}

/// fork, chroot into `jail`, extract `pkg` to the target; returns (exit code, message)
fn extract_in_jail(jail: &Path, pkgs: &[rpm::Package], target_rel: &str, umask: u32) -> Result<(i32, String), (String, String)> {
    let result_path = jail.parent().unwrap().join(format!("{}.result", jail.file_name().unwrap().to_string_lossy()));
    let result_file = std::fs::File::create(&result_path).map_err(|e| ("harness-io".to_string(), e.to_string()))?;
    let cjail = std::ffi::CString::new(jail.as_os_str().to_string_lossy().as_bytes()).unwrap();
    let target = format!("/{}", target_rel);
    let pid = unsafe { libc::fork() };
    if pid < 0 {
        return Err(("harness-fork".into(), "fork failed".into()));
    }
    if pid == 0 {
        // child
        use std::io::Write;
        let mut rf = result_file;
        let code = unsafe {
            if libc::chroot(cjail.as_ptr()) != 0 || libc::chdir(b"/\0".as_ptr() as *const libc::c_char) != 0 {
                let _ = rf.write_all(b"chroot refused");
                libc::_exit(9);
            }
            libc::umask(umask as libc::mode_t);
            0
        };
        let _ = code;
        // several packages go into the same target one after the other; the verdict is the
        // last result, a panic anywhere wins
        let (mut code, mut msg) = (0, String::new());
        for pkg in pkgs {
            let r = panics::catch(|| pkg.extract(&target));
            match r {
                Ok(Ok(())) => {
                    if code != 2 {
                        code = 0;
                    }
                }
                Ok(Err(e)) => {
                    if code != 2 {
                        code = 1;
                        msg = e.to_string();
                    }
                }
                Err(p) => {
                    code = 2;
                    msg = p;
                }
            }
        }
        let _ = rf.write_all(msg.as_bytes());
        let _ = rf.flush();
        unsafe { libc::_exit(code) }
    }
    drop(result_file);
    let mut status: libc::c_int = 0;
    unsafe {
        libc::waitpid(pid, &mut status, 0);
    }
    let msg = std::fs::read_to_string(&result_path).unwrap_or_default();
    let _ = std::fs::remove_file(&result_path);
    if libc::WIFEXITED(status) {
        Ok((libc::WEXITSTATUS(status), msg))
    } else {
        Ok((100 + libc::WTERMSIG(status), format!("child killed by signal {}", libc::WTERMSIG(status))))
    }
}

/// remove entries that conflict with the tree structure: a path may only be a strict prefix of
/// another one when it is an explicit directory
fn consistent_tree(files: Vec<FileSpec>) -> Vec<FileSpec> {
    let files = dedupe_files(files);
    let is_dir: BTreeMap<String, bool> = files.iter().map(|f| (f.abs_path(), matches!(f.mode, ModeSpec::Dir(_)))).collect();
    files
        .into_iter()
        .filter(|f| {
            let p = f.abs_path();
            // no ancestor of p may be a non-directory entry
            let mut anc = PathBuf::from(&p);
            while anc.pop() {
                if let Some(d) = is_dir.get(anc.to_string_lossy().as_ref()) {
                    if !*d {
                        return false;
                    }
                }
            }
            true
        })
        .collect()
}

fn hostile_dir() -> BoxedStrategy<String> {
    prop_oneof![
        3 => filepkg::dir_name(),
        2 => proptest::sample::select(vec!["/../", "/a/../../", "../", "/../../../../../../../../../outside/", "/a/../../../../../../../../../../etc/", "a/", "", "/./", "//", "/outside/../../../../../../../../../"]).prop_map(|s| s.to_string()),
        1 => (1usize..10).prop_map(|n| format!("/{}", "../".repeat(n))),
    ]
    .boxed()
}

fn hostile_base() -> BoxedStrategy<String> {
    prop_oneof![
        4 => "[a-z]{1,5}",
        2 => proptest::sample::select(vec!["..", "../x", "/abs", "", ".", "a/b", "../../../../../../../../../../top.txt", "/etc/passwd", "/outside/keep.txt", "../sibling.txt", "link", "link/pwned", "keep.txt"]).prop_map(|s| s.to_string()),
    ]
    .boxed()
}

fn hostile_files() -> BoxedStrategy<Vec<ModelFile>> {
    let file = (
        hostile_dir(),
        hostile_base(),
        prop_oneof![5 => Just(0o100644u16), 1 => Just(0o040755u16), 3 => Just(0o120777u16), 1 => proptest::sample::select(vec![0o010644u16, 0o020644, 0o060644, 0o140644, 0o000644, 0o170644])],
        proptest::sample::select(vec!["/outside", "../../outside", "/", "..", "/etc", "outside/x", "../../../../../../../../../outside/dir", "/d1", ".", "/outside/victim", "/dangling-at-root", "../../../../../../../../../outside/dir/new", "/etc/passwd", "/outside/keep.txt", "/no/such/dir/x"]),
        proptest::collection::vec(any::<u8>(), 0..12),
    )
        .prop_map(|(dir, base, mode, target, content)| {
            let link = mode & 0o170000 == 0o120000;
            ModelFile { dir, base, mode, mtime: 1, flags: 0, user: "root".into(), group: "root".into(), linkto: if link { target.to_string() } else { String::new() }, content: if link { target.as_bytes().to_vec() } else { content } }
        });
    // pairs "symlink, then a file at or below it" arise from equal dir/base draws; help them along
    (proptest::collection::vec(file, 1..6), any::<bool>())
        .prop_map(|(mut v, follow)| {
            if follow {
                if let Some(l) = v.iter().find(|f| f.mode & 0o170000 == 0o120000).cloned() {
                    v.push(ModelFile { dir: format!("{}{}/", l.dir, l.base), base: "pwned".into(), mode: 0o100644, linkto: String::new(), content: b"through the link".to_vec(), ..l.clone() });
                    v.push(ModelFile { mode: 0o100644, linkto: String::new(), content: b"over the link".to_vec(), ..l });
                }
            }
            v
        })
        .boxed()
}

const LINK_TARGETS: [&str; 16] = ["/outside", "../../outside", "/", "..", "/etc", "outside/x", "../../../../../../../../../outside/dir", "/d1", ".", "/outside/victim", "/dangling-at-root", "../../../../../../../../../outside/dir/new", "/etc/passwd", "/outside/keep.txt", "/no/such/dir/x", "sibling"];

/// systematic "symlink, then something at or below it" packages (no other hostile ingredient, so
/// that extraction really reaches the second entry)
fn link_game(i: u64) -> Option<C12Case> {
    let target = LINK_TARGETS[(i % 16) as usize];
    let follow = (i / 16) % 13;
    let deep = (i / 16 / 13) % 2 == 1;
    let dir = if deep { "/opt/app/" } else { "/" };
    let mk = |dir: &str, base: &str, mode: u16, linkto: &str, content: &[u8]| ModelFile { dir: dir.into(), base: base.into(), mode, mtime: 1, flags: 0, user: "root".into(), group: "root".into(), linkto: linkto.into(), content: content.to_vec() };
    let link = mk(dir, "link", 0o120777, target, target.as_bytes());
    let below = format!("{dir}link/");
    let second = match follow {
        0 => mk(dir, "link", 0o100644, "", b"over the link"),
        1 => mk(&below, "pwned", 0o100644, "", b"through the link"),
        2 => mk(dir, "link", 0o040700, "", b""),
        3 => mk(&below, "sub", 0o040700, "", b""),
        4 => mk(dir, "link", 0o120777, "/outside/dir", b"/outside/dir"),
        5 => mk(&below, "keep.txt", 0o100600, "", b"overwrite a sentinel"),
        6 => mk(&below, "inner", 0o120777, "/etc", b"/etc"),
        // the '/' inside the base name: the directory below the link is NOT pre-created from
        // the directory-name table, so the path really leads through the link
        7 => mk(dir, "link/pwned", 0o100644, "", b"through the link, one level"),
        8 => mk(dir, "link/dir/deep.txt", 0o100644, "", b"through the link, two levels"),
        9 => mk(dir, "link/dir/inner.txt", 0o100644, "", b"overwrite a sentinel two levels below"),
        // the link's own path spelled un-normalised, as a directory entry (chmod target!)
        10 => mk(dir, "link/", 0o040700, "", b""),
        11 => mk(dir, "link/.", 0o040700, "", b""),
        _ => mk(dir, "link//", 0o100600, "", b"regular file spelled with trailing slashes"),
    };
    // both orders: "link, then something at or below it" and "something, then a link at its path"
    // (whatever is done to the first entry's path later - chmod, utimes - then follows the link)
    let reversed = (i / (16 * 13 * 2 * 2)) % 2 == 1;
    let mut files = if reversed { vec![mk(dir, "first", 0o100644, "", b"a regular file first"), second, link] } else { vec![mk(dir, "first", 0o100644, "", b"a regular file first"), link, second] };
    if (i / 16 / 13 / 2) % 2 == 1 {
        files.push(mk(dir, "zlast", 0o100644, "", b"after the games"));
    }
    if i >= 16 * 13 * 2 * 2 * 2 * 3 {
        return None;
    }
    Some(C12Case::Hostile { files, scenario: ((i / (16 * 13 * 2 * 2 * 2)) % 3) as u8 })
}

impl Property for C12 {
    type Case = C12Case;
    const ID: &'static str = "C12";
    const ISOLATED: bool = true;
    fn new(_t: Tier) -> Self {
        C12
    }
    fn rule(&self) -> String {
        "positive: packages built from consistent file trees (nested directories, explicit directory entries, symlinks, all 12 permission bits, every compressor) - every entry must exist at target+path with content, permission bits and link target, result Ok; hostile: hand-encoded packages with '..' in directory or base names, absolute base names, empty names, duplicate paths, a symlink followed by a file/directory/link at or below it and the reverse order (16 link targets x 13 second entries x 2 depths x 2 orders), FIFO/char/block/socket/unknown file types, dirnames without leading '/'. Hostile packages are also extracted into a target whose parent directories do not exist and, split in two, one after the other into the same target. Each case is extracted by a forked child chroot()ed into a fresh jail with sentinel files; everything in the jail outside the target is snapshotted before and after. Non-trivial = at least one entry extracted or an error after the target was created; distinct by case hash.".into()
    }
    fn assumptions(&self) -> Vec<String> {
        vec![
            "containment is judged inside a chroot jail (uid 0): paths escaping the jail itself cannot be observed, the jail root is 9 levels above the target and escapes land inside it".into(),
            "TOCTOU races against a concurrent attacker are out of scope".into(),
        ]
    }
    fn required_labels(&self, _t: Tier) -> Vec<&'static str> {
        vec!["built", "hostile", "extracted-something", "hostile-dotdot", "hostile-symlink", "hostile-special-type", "built-symlink", "built-dir", "result-err", "result-ok", "target-parent-missing", "two-extractions-one-target"]
    }
    fn phases(&self, tier: Tier) -> Vec<Phase<C12Case>> {
        vec![
            Phase::Random {
                name: "built-trees",
                cases: tier.pick(4_000, 80_000),
                strat: Arc::new(|| {
                    config_any(CfgParams { max_files: 8, sizes: size_small(), comp: comp_fast(), sign_prob: 0.0, file_kinds: true, force_large_prob: 0.1, rich_meta: false })
                        .prop_map(|mut c| {
                            c.files = consistent_tree(std::mem::take(&mut c.files));
                            C12Case::Built(c)
                        })
                        .boxed()
                }),
            },
            Phase::Enumerate { name: "link-games", total: 16 * 13 * 2 * 2 * 2 * 3, exhaustive: true, gen: Arc::new(link_game) },
            Phase::Random { name: "hostile", cases: tier.pick(12_000, 300_000), strat: Arc::new(|| (hostile_files(), prop_oneof![4 => Just(0u8), 1 => Just(1u8), 2 => Just(2u8)]).prop_map(|(files, scenario)| C12Case::Hostile { files, scenario }).boxed()) },
        ]
    }
    fn check(&self, case: &C12Case) -> Outcome {
        let mut o = Outcome::new();
        if let Err((c, d)) = inner(case, &mut o) {
            o.fail(&c, d);
        }
        o
    }
}

fn inner(case: &C12Case, o: &mut Outcome) -> Result<(), (String, String)> {
    let mut target_rel = format!("{TARGET_PARENT}/t");
    let mut second_pkg: Option<rpm::Package> = None;
    let (pkg, expect): (rpm::Package, Option<Vec<(FileSpec, Vec<u8>)>>) = match case {
        C12Case::Built(cfg) => {
            o.label("built");
            for f in &cfg.files {
                match f.mode {
                    ModeSpec::Symlink(_) => o.label("built-symlink"),
                    ModeSpec::Dir(_) => o.label("built-dir"),
                    _ => {}
                }
            }
            let b = build_and_write(cfg)?;
            (parse_pkg(&b.bytes)?, Some(b.files))
        }
        C12Case::Hostile { files, scenario } => {
            o.label("hostile");
            let split = if *scenario == 2 && files.len() >= 2 { Some(files.len().min(3) - 1) } else { None };
            match scenario {
                1 => {
                    o.label("target-parent-missing");
                    target_rel = format!("{TARGET_PARENT}/missing/sub/t");
                }
                2 if split.is_some() => o.label("two-extractions-one-target"),
                _ => {}
            }
            for f in files {
                if f.dir.contains("..") || f.base.contains("..") {
                    o.label("hostile-dotdot");
                }
                match f.mode & 0o170000 {
                    0o120000 => o.label("hostile-symlink"),
                    0o100000 | 0o040000 => {}
                    _ => o.label("hostile-special-type"),
                }
            }
            let encode = |files: &[ModelFile]| -> Option<rpm::Package> {
                let mut main = filepkg::basic_entries("hostile");
                main.extend(filepkg::file_entries(files, false));
                let payload = cpio::write_archive(&filepkg::archive_for(files));
                let bytes = filepkg::wrap(main, payload, true).encode();
                match panics::catch(|| rpm::Package::parse(&mut &bytes[..])) {
                    Ok(Ok(p)) => Some(p),
                    _ => None,
                }
            };
            let (a, b) = match split {
                Some(k) => (encode(&files[..k]), Some(encode(&files[k..]))),
                None => (encode(files), None),
            };
            match (a, b) {
                (Some(p), None) => (p, None),
                (Some(p), Some(Some(q))) => {
                    second_pkg = Some(q);
                    (p, None)
                }
                _ => {
                    o.label("unparseable");
                    return Ok(());
                }
            }
        }
    };
    let jail = make_jail()?;
    let target = jail.0.join(&target_rel);
    let before = snapshot(&jail.0, &target);
    // the process umask must not influence the permission bits of listed entries
    let umask = [0o022u32, 0o077, 0o000, 0o027][(fnv1a(serde_json::to_string(case).unwrap_or_default().as_bytes()) % 4) as usize];
    o.label(format!("umask-{:03o}", umask));
    let mut pkgs = vec![pkg];
    pkgs.extend(second_pkg);
    let (code, msg) = extract_in_jail(&jail.0, &pkgs, &target_rel, umask)?;
    let pkg = &pkgs[0];
    if code == 9 {
        return Err(("harness-chroot".into(), "chroot() refused in this sandbox".into()));
    }
    let after = snapshot(&jail.0, &target);
    let inside = snapshot(&target, Path::new("/nonexistent"));
    if !inside.is_empty() || (code == 1 && target.exists()) {
        o.label("extracted-something");
        o.nontrivial_key(fnv1a(serde_json::to_string(case).unwrap_or_default().as_bytes()));
    }
    o.label(match code {
        0 => "result-ok",
        1 => "result-err",
        _ => "result-crash",
    });
    // containment first
    if before != after {
        let mut diffs = vec![];
        for (k, v) in &after {
            match before.get(k) {
                None => diffs.push(format!("created {k}")),
                Some(b) if b != v => diffs.push(format!("modified {k}")),
                _ => {}
            }
        }
        for k in before.keys() {
            if !after.contains_key(k) {
                diffs.push(format!("removed {k}"));
            }
        }
        diffs.truncate(4);
        return Err(("escaped-target".into(), format!("extraction touched the file system outside the target directory: {}", diffs.join(", "))));
    }
    if code == 2 {
        return Err(("panic".into(), format!("extract panicked: {msg}")));
    }
    if code >= 100 {
        return Err(("process-died".into(), msg));
    }
    // positive oracle
    if let Some(files) = expect {
        // a package without any file has nothing to recreate; the statement does not say whether
        // that is success or an error
        if code != 0 && !files.is_empty() {
            return Err(("extract-failed".into(), format!("extraction of a well-formed package failed: {msg}")));
        }
        for (f, content) in &files {
            let p = target.join(f.abs_path().trim_start_matches('/'));
            let md = std::fs::symlink_metadata(&p).map_err(|_| ("missing-entry".to_string(), format!("{} was not created", f.abs_path())))?;
            let mode = f.expected_mode();
            match mode & 0o170000 {
                0o040000 => {
                    if !md.is_dir() {
                        return Err(("wrong-type".into(), format!("{} should be a directory", f.abs_path())));
                    }
                    if md.permissions().mode() & 0o7777 != (mode & 0o7777) as u32 {
                        return Err(("wrong-permissions".into(), format!("directory {}: {:o}, expected {:o}", f.abs_path(), md.permissions().mode() & 0o7777, mode & 0o7777)));
                    }
                }
                0o120000 => {
                    let t = std::fs::read_link(&p).map_err(|_| ("wrong-type".to_string(), format!("{} should be a symbolic link", f.abs_path())))?;
                    if t.to_string_lossy() != f.symlink.clone().unwrap_or_default() {
                        return Err(("wrong-link-target".into(), format!("{} -> {:?}, expected {:?}", f.abs_path(), t, f.symlink)));
                    }
                }
                _ => {
                    if !md.is_file() {
                        return Err(("wrong-type".into(), format!("{} should be a regular file", f.abs_path())));
                    }
                    let c = std::fs::read(&p).unwrap_or_default();
                    if &c != content {
                        return Err(("wrong-content".into(), format!("{}: {} bytes on disk, {} archived", f.abs_path(), c.len(), content.len())));
                    }
                    if md.permissions().mode() & 0o7777 != (mode & 0o7777) as u32 {
                        return Err(("wrong-permissions".into(), format!("{}: {:o}, expected {:o}", f.abs_path(), md.permissions().mode() & 0o7777, mode & 0o7777)));
                    }
                }
            }
        }
    }
    Ok(())
}
