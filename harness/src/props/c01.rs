//! C01 - parse ∘ write is the identity on accepted bytes (up to reserved bytes and padding),
//! and the written bytes are a fixpoint.

use super::common::*;
use crate::engine::*;
use crate::gen::pool::pool;
use crate::gen::raw;
use crate::refimpl::fmt;
use proptest::prelude::*;
use std::sync::Arc;

pub struct C01;

fn parse_pkg(b: &[u8]) -> Result<Result<rpm::Package, rpm::Error>, String> {
    panics::catch(|| rpm::Package::parse(&mut &b[..]))
}
fn parse_meta(b: &[u8]) -> Result<Result<rpm::PackageMetadata, rpm::Error>, String> {
    panics::catch(|| rpm::PackageMetadata::parse(&mut &b[..]))
}
fn write_pkg(p: &rpm::Package) -> Result<Result<Vec<u8>, rpm::Error>, String> {
    panics::catch(|| {
        let mut v = Vec::new();
        p.write(&mut v).map(|_| v)
    })
}
fn write_meta(p: &rpm::PackageMetadata) -> Result<Result<Vec<u8>, rpm::Error>, String> {
    panics::catch(|| {
        let mut v = Vec::new();
        p.write(&mut v).map(|_| v)
    })
}

pub fn labels_for(o: &mut Outcome, bytes: &[u8], seg: &fmt::Segments) {
    for (h, sig) in [(&seg.sig, true), (&seg.hdr, false)] {
        let mut prev: Option<u32> = None;
        let mut seen = std::collections::BTreeSet::new();
        for e in &h.entries {
            o.label(format!("type-{}", e.typ));
            let known = if sig { raw::SIG_TAGS.contains(&e.tag) } else { raw::MAIN_TAGS.contains(&e.tag) };
            if !known && e.tag > 100 {
                o.label("unknown-tag");
            }
            if !seen.insert(e.tag) {
                o.label("dup-tag");
            }
            if let Some(p) = prev {
                if e.tag < p {
                    o.label("unsorted");
                }
            }
            prev = Some(e.tag);
            if matches!(e.typ, 6 | 8 | 9) {
                if let Some(len) = fmt::data_length(h.store(bytes), e) {
                    let d = &h.store(bytes)[e.offset as usize..e.offset as usize + len];
                    if std::str::from_utf8(d).is_err() {
                        o.label("non-utf8");
                    }
                }
            }
        }
        if h.reserved != [0; 4] {
            o.label("nonzero-reserved");
        }
        if h.magic[2] != 0xe8 {
            o.label("bad-magic3");
        }
    }
    o.label(format!("sig-dlmod-{}", seg.sig.dl % 8));
    if bytes[seg.pad_start..seg.hdr.start].iter().any(|b| *b != 0) {
        o.label("nonzero-pad");
    }
    if seg.payload_start == bytes.len() {
        o.label("empty-payload");
    }
}

impl Property for C01 {
    type Case = PkgCase;
    const ID: &'static str = "C01";

    fn new(_tier: Tier) -> Self {
        C01
    }
    fn rule(&self) -> String {
        "cases: hand-encoded packages from a model of lead/headers (all 10 types, unknown/duplicate/unsorted tags, gaps, perturbed offsets/counts, non-UTF-8, random lead, non-zero reserved bytes and padding), the package pool (6 rpmbuild assets + builder/signer output), and byte mutations of both. Non-trivial = accepted by Package::parse AND at least one index entry in a header; distinct by hash of the input bytes.".into()
    }
    fn assumptions(&self) -> Vec<String> {
        vec![
            "reference segmenter (refimpl::fmt::decode) locates intros, padding and payload independently of the crate".into(),
            "nothing is asserted about which inputs must be accepted; panics count as 'not accepted' here (C04 judges them)".into(),
        ]
    }
    fn required_labels(&self, _t: Tier) -> Vec<&'static str> {
        vec![
            "accepted", "rejected", "type-0", "type-1", "type-2", "type-3", "type-4", "type-5", "type-6",
            "type-7", "type-8", "type-9", "unknown-tag", "dup-tag", "unsorted", "non-utf8",
            "nonzero-reserved", "nonzero-pad", "empty-payload", "sig-dlmod-0", "sig-dlmod-1", "sig-dlmod-2",
            "sig-dlmod-3", "sig-dlmod-4", "sig-dlmod-5", "sig-dlmod-6", "sig-dlmod-7", "input-bad-magic3",
            "metadata-accepted", "via-file", "via-fifo",
        ]
    }
    fn phases(&self, tier: Tier) -> Vec<Phase<PkgCase>> {
        let n = pool().len() as u64;
        vec![
            Phase::Enumerate {
                name: "pool",
                total: n,
                gen: Arc::new(|i| Some(PkgCase::Pool(i as u16))),
                exhaustive: false,
            },
            Phase::Random {
                name: "constructed",
                cases: tier.pick(250_000, 5_000_000),
                strat: Arc::new(|| raw::raw_package(false).prop_map(PkgCase::Raw).boxed()),
            },
            Phase::Random {
                name: "constructed-mutated",
                cases: tier.pick(60_000, 1_000_000),
                strat: Arc::new(|| {
                    (raw::raw_package(false), proptest::collection::vec(crate::gen::mutate::mutation(), 1..3))
                        .prop_map(|(pkg, muts)| PkgCase::RawMutated { pkg, muts })
                        .boxed()
                }),
            },
            Phase::Random {
                name: "pool-mutated",
                cases: tier.pick(100_000, 2_000_000),
                strat: Arc::new(|| mutated_pool(40_000, 3)),
            },
        ]
    }

    fn extra(&self, tier: Tier, seed: u64) -> ExtraResult<PkgCase> {
        let mut r = ExtraResult::default();
        if tier != Tier::Thorough {
            return r;
        }
        let seeds: Vec<Vec<u8>> = pool().iter().filter(|p| p.bytes.len() < 40_000).map(|p| p.bytes.clone()).collect();
        let c = fuzz::run(&fuzz::Campaign { target: "fz_read", runs: 250_000, jobs: 8, max_len: 65536, seeds }, seed);
        r.fields = c.fields;
        r.inconclusive = c.inconclusive;
        r.cases = c.artifacts.into_iter().map(PkgCase::Bytes).collect();
        r
    }
    fn check(&self, case: &PkgCase) -> Outcome {
        let mut o = Outcome::new();
        let x = case.bytes();
        o.label(case.kind());
        // what the *input* looks like (independent of acceptance)
        let seg_in = fmt::decode(&x).ok();
        if let Some(s) = &seg_in {
            if s.sig.magic[2] != 0xe8 || s.hdr.magic[2] != 0xe8 {
                o.label("input-bad-magic3");
            }
        }
        let p = match parse_pkg(&x) {
            Err(_) => {
                o.label("crashed");
                return o;
            }
            Ok(Err(_)) => {
                o.label("rejected");
                return o;
            }
            Ok(Ok(p)) => p,
        };
        o.label("accepted");
        let Some(seg) = seg_in else {
            o.fail("accepted-unsegmentable", "the parser accepted bytes in which the reference cannot even locate two complete headers");
            return o;
        };
        labels_for(&mut o, &x, &seg);
        if !seg.sig.entries.is_empty() || !seg.hdr.entries.is_empty() {
            o.nontrivial_key(fnv1a(&x));
        }
        let expect = fmt::normalize(&x, &seg);
        let w = match write_pkg(&p) {
            Ok(Ok(w)) => w,
            Ok(Err(e)) => {
                o.fail("write-error", format!("write of an accepted package failed: {e}"));
                return o;
            }
            Err(pn) => {
                o.fail("write-panic", pn);
                return o;
            }
        };
        if w != expect {
            o.fail("write-differs", format!("write(parse(x)) != norm(x): {}", first_diff(&w, &expect)));
            return o;
        }
        // fixpoint
        match parse_pkg(&w) {
            Ok(Ok(p2)) => {
                if p2.metadata != p.metadata || p2.content != p.content {
                    o.fail("fixpoint-value", "parse(write(p)) differs from p");
                    return o;
                }
                match write_pkg(&p2) {
                    Ok(Ok(w2)) if w2 == w => {}
                    Ok(Ok(w2)) => {
                        o.fail("fixpoint-bytes", format!("second write differs: {}", first_diff(&w2, &w)));
                        return o;
                    }
                    other => {
                        o.fail("fixpoint-bytes", format!("second write failed: {:?}", other.map(|r| r.map(|_| ()).map_err(|e| e.to_string()))));
                        return o;
                    }
                }
            }
            Ok(Err(e)) => {
                o.fail("fixpoint-parse", format!("written bytes are rejected: {e}"));
                return o;
            }
            Err(pn) => {
                o.fail("fixpoint-parse", format!("written bytes make the parser panic: {pn}"));
                return o;
            }
        }
        // the path based entry points give the same value / bytes (pool items and a 1-in-32 sample)
        if matches!(case, PkgCase::Pool(_)) || fnv1a(&x) % 32 == 0 {
            o.label("via-file");
            let dir = crate::gen::builder::TempDir::new("c01");
            let inp = dir.0.join("in.rpm");
            let outp = dir.0.join("out.rpm");
            if std::fs::write(&inp, &x).is_ok() {
                match panics::catch(|| (rpm::Package::open(&inp), rpm::PackageMetadata::open(&inp), p.write_file(&outp))) {
                    Ok((Ok(po), Ok(mo), Ok(()))) => {
                        if po.metadata != p.metadata || po.content != p.content || mo != p.metadata {
                            o.fail("open-differs", "Package::open / PackageMetadata::open give a different value than parse on the same bytes");
                            return o;
                        }
                        if std::fs::read(&outp).ok().as_deref() != Some(&w[..]) {
                            o.fail("write-file-differs", "write_file produced different bytes than write");
                            return o;
                        }
                        // the same path based entry point on something that is not a regular file
                        // (a FIFO fed by another thread): stat() says size 0, the bytes are the same
                        let fifo = dir.0.join("in.fifo");
                        let cpath = std::ffi::CString::new(fifo.as_os_str().to_string_lossy().as_bytes()).unwrap();
                        if unsafe { libc::mkfifo(cpath.as_ptr(), 0o600) } == 0 {
                            let data = x.clone();
                            let fifo2 = fifo.clone();
                            let feeder = std::thread::spawn(move || {
                                if let Ok(mut f) = std::fs::OpenOptions::new().write(true).open(&fifo2) {
                                    use std::io::Write;
                                    let _ = f.write_all(&data);
                                }
                            });
                            let via_fifo = panics::catch(|| rpm::Package::open(&fifo));
                            let _ = feeder.join();
                            match via_fifo {
                                Ok(Ok(pf)) if pf.metadata == p.metadata && pf.content == p.content => {
                                    o.label("via-fifo");
                                }
                                Ok(Ok(pf)) => {
                                    o.fail("open-differs", format!("Package::open on a FIFO carrying the same bytes gives a different value (payload {} bytes instead of {})", pf.content.len(), p.content.len()));
                                    return o;
                                }
                                Ok(Err(e)) => {
                                    o.fail("open-differs", format!("Package::open on a FIFO carrying accepted bytes fails: {e}"));
                                    return o;
                                }
                                Err(pn) => {
                                    o.fail("open-panic", pn);
                                    return o;
                                }
                            }
                        }
                    }
                    Ok(other) => {
                        o.fail("open-differs", format!("path based entry points fail on accepted bytes: open {:?}, metadata open {:?}, write_file {:?}", other.0.map(|_| ()).map_err(|e| e.to_string()), other.1.map(|_| ()).map_err(|e| e.to_string()), other.2.map_err(|e| e.to_string())));
                        return o;
                    }
                    Err(pn) => {
                        o.fail("open-panic", pn);
                        return o;
                    }
                }
            }
        }
        // metadata-only entry points
        match parse_meta(&x) {
            Ok(Ok(m)) => {
                o.label("metadata-accepted");
                if m != p.metadata {
                    o.fail("metadata-vs-package", "PackageMetadata::parse and Package::parse disagree on the same bytes");
                    return o;
                }
                match write_meta(&m) {
                    Ok(Ok(wm)) => {
                        if wm != expect[..seg.payload_start] {
                            o.fail("metadata-write-differs", first_diff(&wm, &expect[..seg.payload_start]));
                            return o;
                        }
                        match parse_meta(&wm) {
                            Ok(Ok(m2)) if m2 == m => {}
                            _ => {
                                o.fail("metadata-fixpoint", "written metadata does not parse back to an equal value");
                                return o;
                            }
                        }
                    }
                    other => {
                        o.fail("metadata-write-error", format!("{:?}", other.map(|r| r.map(|_| ()).map_err(|e| e.to_string()))));
                        return o;
                    }
                }
            }
            _ => {
                o.fail("metadata-vs-package", "Package::parse accepted but PackageMetadata::parse did not");
                return o;
            }
        }
        o
    }
}
