//! C13 - version comparison equals rpmvercmp and is a total preorder.

use crate::engine::*;
use crate::refimpl::vercmp;
use proptest::prelude::*;
use serde::{Deserialize, Serialize};
use std::cmp::Ordering;
use std::sync::Arc;

pub struct C13 {
    strings3: Vec<String>,
    strings4: Vec<String>,
    strings2: Vec<String>,
}

pub const SIGMA: [&str; 12] = ["0", "1", "9", "a", "b", "Z", ".", "-", "_", "~", "^", "é"];

#[derive(Serialize, Deserialize, Clone, Debug)]
pub enum C13Case {
    /// string #i of the bounded set (length <= maxlen) against every string of the set
    Row { maxlen: u8, i: u32 },
    /// all triples (a, b, c) with a = string #i of the length<=2 set
    Triples { i: u32 },
    /// sorted-run criterion over the whole bounded set
    SortedRun { maxlen: u8 },
    Pair(String, String),
    Triple(String, String, String),
    /// EVR / NEVRA tuples
    Evr { a: (String, String, String), b: (String, String, String), name_a: String, name_b: String, arch_a: String, arch_b: String },
}

fn all_strings(maxlen: usize) -> Vec<String> {
    let mut out = vec![String::new()];
    let mut prev = vec![String::new()];
    for _ in 0..maxlen {
        let mut next = Vec::with_capacity(prev.len() * SIGMA.len());
        for p in &prev {
            for s in SIGMA {
                next.push(format!("{}{}", p, s));
            }
        }
        out.extend(next.iter().cloned());
        prev = next;
    }
    out
}

/// the library's comparison of two version strings through the public API
pub fn lib_cmp(a: &str, b: &str) -> Ordering {
    rpm::Evr::new("", a, "").cmp(&rpm::Evr::new("", b, ""))
}

fn check_pair(a: &str, b: &str) -> Result<(), (String, String)> {
    // rpmvercmp is defined on C strings: a NUL cannot occur inside one (found by fz_vercmp, which
    // feeds arbitrary bytes - the reference stops at the NUL, the library sees a separator)
    if a.contains('\0') || b.contains('\0') {
        return Ok(());
    }
    let want = vercmp::vercmp(a, b);
    let got = lib_cmp(a, b);
    if got != want {
        return Err(("differs-from-rpmvercmp".into(), format!("cmp({:?}, {:?}) = {:?}, rpmvercmp says {:?}", a, b, got, want)));
    }
    let rev = lib_cmp(b, a);
    if rev != got.reverse() {
        return Err(("antisymmetry".into(), format!("cmp({:?}, {:?}) = {:?} but cmp({:?}, {:?}) = {:?}", a, b, got, b, a, rev)));
    }
    // the same two strings as borrowed slices of ONE buffer (same start address, different
    // lengths): the result must not depend on where the callers' strings live
    if b.starts_with(a) && a.len() < b.len() {
        let shared = rpm::Evr::new("", &b[..a.len()], "").cmp(&rpm::Evr::new("", b, ""));
        if shared != want {
            return Err(("differs-from-rpmvercmp".into(), format!("cmp({a:?}, {b:?}) with both arguments borrowed from one buffer = {shared:?}, rpmvercmp says {want:?}")));
        }
        let shared = rpm::Evr::new("", b, "").cmp(&rpm::Evr::new("", &b[..a.len()], ""));
        if shared != want.reverse() {
            return Err(("antisymmetry".into(), format!("cmp({b:?}, {a:?}) with both arguments borrowed from one buffer = {shared:?}")));
        }
    }
    // the release position and the string entry point use the same algorithm
    let via_release = rpm::Evr::new("", "1", a).cmp(&rpm::Evr::new("", "1", b));
    if via_release != want {
        return Err(("release-differs".into(), format!("as release: cmp({:?}, {:?}) = {:?}, rpmvercmp says {:?}", a, b, via_release, want)));
    }
    Ok(())
}

fn check_triple(a: &str, b: &str, c: &str) -> Result<(), (String, String)> {
    let ab = lib_cmp(a, b);
    let bc = lib_cmp(b, c);
    let ac = lib_cmp(a, c);
    let ok = match (ab, bc) {
        (Ordering::Less, Ordering::Less) | (Ordering::Less, Ordering::Equal) | (Ordering::Equal, Ordering::Less) => ac == Ordering::Less,
        (Ordering::Equal, Ordering::Equal) => ac == Ordering::Equal,
        (Ordering::Greater, Ordering::Greater) | (Ordering::Greater, Ordering::Equal) | (Ordering::Equal, Ordering::Greater) => ac == Ordering::Greater,
        _ => true,
    };
    if !ok {
        return Err(("transitivity".into(), format!("cmp({a:?},{b:?})={ab:?}, cmp({b:?},{c:?})={bc:?} but cmp({a:?},{c:?})={ac:?}")));
    }
    Ok(())
}

fn long_string() -> BoxedStrategy<String> {
    proptest::collection::vec(
        prop_oneof![
            4 => "[0-9]{1,6}",
            2 => "0{1,4}[0-9]{0,3}",
            4 => "[a-zA-Z]{1,5}",
            3 => "[.\\-_+]{1,3}",
            1 => Just("~".to_string()),
            1 => Just("^".to_string()),
            1 => Just("é".to_string()),
            1 => proptest::sample::select(vec!["²", "½", "٣", "Ⅷ", "１", "৭", "ß", "Ω", "一"]).prop_map(|s| s.to_string()),
            1 => Just("~~".to_string()),
            1 => Just("^~".to_string()),
        ],
        0..8,
    )
    .prop_map(|v| v.concat())
    .boxed()
}

/// pairs biased to shared prefixes
fn long_pair() -> BoxedStrategy<(String, String)> {
    (long_string(), long_string(), long_string(), 0u8..4)
        .prop_map(|(p, x, y, mode)| match mode {
            0 => (format!("{p}{x}"), format!("{p}{y}")),
            1 => (p.clone(), format!("{p}{y}")),
            2 => (format!("{p}{x}"), format!("{p}0{x}")),
            _ => (x, y),
        })
        .boxed()
}

impl Property for C13 {
    type Case = C13Case;
    const ID: &'static str = "C13";

    fn new(tier: Tier) -> Self {
        C13 {
            strings2: all_strings(2),
            strings3: all_strings(3),
            strings4: if tier == Tier::Thorough { all_strings(4) } else { vec![] },
        }
    }
    fn rule(&self) -> String {
        format!("alphabet {:?}; complete enumeration of all ordered pairs of strings up to length 3 (quick) / 4 (thorough) and of all triples up to length 2, sorted-run criterion for transitivity over the whole bounded set, plus random long pairs/triples with shared prefixes, zero runs and separator runs, pairs that share up to 5000 repetitions of a unit (segments, separators, tilde/caret steps; lengths around every power of two up to 4096 units) before they differ, and EVR/NEVRA tuples. Every evaluated pair with a != b is non-trivial; enumerated pairs are distinct by construction, random ones by hash.", SIGMA)
    }
    fn assumptions(&self) -> Vec<String> {
        vec!["reference = transliteration of rpm's rpmvercmp() (refimpl::vercmp); EVR order as stated in C13 (epoch \"\" = \"0\", then version, then release)".into()]
    }
    fn required_labels(&self, _t: Tier) -> Vec<&'static str> {
        vec!["row", "triples", "sorted-run", "pair", "evr", "evr-equal-values"]
    }
    fn phases(&self, tier: Tier) -> Vec<Phase<C13Case>> {
        let n3 = self.strings3.len() as u64;
        let n2 = self.strings2.len() as u64;
        let mut v = vec![
            Phase::Enumerate { name: "all-pairs-len3", total: n3, exhaustive: true, gen: Arc::new(|i| Some(C13Case::Row { maxlen: 3, i: i as u32 })) },
            Phase::Enumerate { name: "all-triples-len2", total: n2, exhaustive: true, gen: Arc::new(|i| Some(C13Case::Triples { i: i as u32 })) },
            Phase::Enumerate { name: "sorted-run-len3", total: 1, exhaustive: true, gen: Arc::new(|_| Some(C13Case::SortedRun { maxlen: 3 })) },
        ];
        if tier == Tier::Thorough {
            let n4 = self.strings4.len() as u64;
            v.push(Phase::Enumerate { name: "all-pairs-len4", total: n4, exhaustive: true, gen: Arc::new(|i| Some(C13Case::Row { maxlen: 4, i: i as u32 })) });
            v.push(Phase::Enumerate { name: "sorted-run-len4", total: 1, exhaustive: true, gen: Arc::new(|_| Some(C13Case::SortedRun { maxlen: 4 })) });
        }
        v.push(Phase::Random { name: "long-pairs", cases: tier.pick(1_000_000, 6_000_000), strat: Arc::new(|| long_pair().prop_map(|(a, b)| C13Case::Pair(a, b)).boxed()) });
        // hundreds to thousands of shared segments / tilde-caret steps / characters before the
        // first difference (any per-string bound on segments, blocks or length shows up here)
        v.push(Phase::Random {
            name: "very-long-pairs",
            cases: tier.pick(20_000, 400_000),
            strat: Arc::new(|| {
                let unit = proptest::sample::select(vec!["1.", "a.", "1a", "~", "^", "0.", "10.", "1~", "ab1.", "-", "_", "1.1.1.1.1.1.1.1.", "0123456789abcdef"]);
                let count = prop_oneof![3 => 1usize..64, 3 => proptest::sample::select(vec![15usize, 16, 17, 255, 256, 257, 511, 512, 513, 1023, 1024, 1025, 4095, 4096, 4097]), 2 => 64usize..5000];
                let tail = || prop_oneof![2 => "[0-9a-b.~^_]{0,4}", 1 => Just(String::new()), 1 => Just("~".to_string()), 1 => Just(".".to_string()), 1 => Just("0".to_string()), 1 => Just("2".to_string()), 1 => Just("3".to_string())];
                (unit, count, tail(), tail()).prop_map(|(u, n, x, y)| {
                    let p = u.repeat(n);
                    C13Case::Pair(format!("{p}{x}"), format!("{p}{y}"))
                }).boxed()
            }),
        });
        v.push(Phase::Random {
            name: "long-triples",
            cases: tier.pick(300_000, 2_000_000),
            strat: Arc::new(|| (long_pair(), long_string(), any::<bool>()).prop_map(|((a, b), c, m)| if m { C13Case::Triple(a.clone(), b, format!("{a}{c}")) } else { C13Case::Triple(a, b, c) }).boxed()),
        });
        v.push(Phase::Random {
            name: "evr-nevra",
            cases: tier.pick(300_000, 2_000_000),
            strat: Arc::new(|| {
                let comp = || prop_oneof![3 => "[0-9a-b.~^]{0,5}", 2 => "[0-9a-b.:-]{0,5}", 1 => Just(String::new()), 1 => Just("1".to_string())];
                let epoch = || prop_oneof![2 => Just(String::new()), 1 => Just("0".to_string()), 2 => "[0-9]{1,3}"];
                let nm = || prop_oneof![2 => Just("foo".to_string()), 1 => "[a-c0-9.]{0,4}"];
                ((epoch(), comp(), comp()), (epoch(), comp(), comp()), (nm(), nm()), (nm(), nm()), 0u8..6)
                    .prop_map(|(a, b, (name_a, name_b), (arch_a, arch_b), same)| {
                        // two ways of cutting the same text into fields: "v-w" | "r"  versus  "v" | "w-r"
                        if same == 4 {
                            let a2 = (a.0.clone(), format!("{}-{}", a.1, b.1), a.2.clone());
                            let b2 = (a.0.clone(), a.1.clone(), format!("{}-{}", b.1, a.2));
                            return C13Case::Evr { a: a2, b: b2, name_a: name_a.clone(), name_b: name_a, arch_a: arch_a.clone(), arch_b: arch_a };
                        }
                        if same == 5 {
                            let a2 = (format!("{}:{}", a.0, a.1), b.1.clone(), a.2.clone());
                            let b2 = (a.0.clone(), format!("{}:{}", a.1, b.1), a.2.clone());
                            return C13Case::Evr { a: a2, b: b2, name_a: name_a.clone(), name_b: name_a, arch_a: arch_a.clone(), arch_b: arch_a };
                        }
                        // bias towards equal components so that later components decide
                        let mut b = b;
                        if same >= 1 { b.1 = a.1.clone(); }
                        if same >= 2 { b.0 = a.0.clone(); }
                        if same >= 3 { b.2 = a.2.clone(); }
                        let name_b = if same >= 1 { name_a.clone() } else { name_b };
                        C13Case::Evr { a, b, name_a, name_b, arch_a, arch_b }
                    })
                    .boxed()
            }),
        });
        v
    }

    fn extra(&self, tier: Tier, seed: u64) -> ExtraResult<C13Case> {
        let mut r = ExtraResult::default();
        if tier != Tier::Thorough {
            return r;
        }
        let seeds = vec![b"1.0~rc1\n1.0".to_vec(), b"1.0^git1\n1.0".to_vec(), b"0010a\n10b".to_vec(), b"a.b-c_d\na+b".to_vec()];
        let c = fuzz::run(&fuzz::Campaign { target: "fz_vercmp", runs: 1_000_000, jobs: 8, max_len: 64, seeds }, seed);
        r.fields = c.fields;
        r.inconclusive = c.inconclusive;
        for a in c.artifacts {
            if let Ok(s) = String::from_utf8(a) {
                let (x, y) = s.split_once('\n').unwrap_or((s.as_str(), ""));
                r.cases.push(C13Case::Pair(x.to_string(), y.to_string()));
            }
        }
        r
    }
    fn check(&self, case: &C13Case) -> Outcome {
        let mut o = Outcome::new();
        let r = panics::catch(|| self.check_inner(case, &mut o));
        match r {
            Ok(Ok(())) => {}
            Ok(Err((clause, detail))) => o.fail(&clause, detail),
            Err(p) => o.fail("panic", p),
        }
        o
    }
}

impl C13 {
    fn set(&self, maxlen: u8) -> &Vec<String> {
        match maxlen {
            2 => &self.strings2,
            3 => &self.strings3,
            _ => &self.strings4,
        }
    }

    fn check_inner(&self, case: &C13Case, o: &mut Outcome) -> Result<(), (String, String)> {
        match case {
            C13Case::Row { maxlen, i } => {
                o.label("row");
                let set = self.set(*maxlen);
                let a = &set[*i as usize % set.len()];
                o.evals = set.len() as u64;
                o.nontrivial = set.len() as u64 - 1;
                if lib_cmp(a, a) != Ordering::Equal {
                    return Err(("reflexivity".into(), format!("cmp({a:?},{a:?}) != Equal")));
                }
                for b in set {
                    check_pair(a, b)?;
                }
            }
            C13Case::Triples { i } => {
                o.label("triples");
                let set = &self.strings2;
                let a = &set[*i as usize % set.len()];
                o.evals = (set.len() * set.len()) as u64;
                o.nontrivial = o.evals;
                for b in set {
                    for c in set {
                        check_triple(a, b, c)?;
                    }
                }
            }
            C13Case::SortedRun { maxlen } => {
                o.label("sorted-run");
                let set = self.set(*maxlen);
                let mut sorted: Vec<&String> = set.iter().collect();
                sorted.sort_by(|a, b| lib_cmp(a, b)); // merge sort (stable)
                let n = sorted.len();
                // total preorder <=> for all i<j: cmp(s_i,s_j) != Greater, and Equal pairs form contiguous runs
                // checked blockwise to stay O(n * window) for the big set: full O(n^2) up to 2000 strings,
                // otherwise every i against a stride sample of j plus its neighbourhood
                let full = n <= 2000;
                let mut evals = 0u64;
                for i in 0..n {
                    let mut seen_less = false;
                    let js: Box<dyn Iterator<Item = usize>> = if full {
                        Box::new(i + 1..n)
                    } else {
                        Box::new((i + 1..(i + 200).min(n)).chain((i + 200..n).step_by(97)))
                    };
                    for j in js {
                        evals += 1;
                        match lib_cmp(sorted[i], sorted[j]) {
                            Ordering::Greater => {
                                return Err(("transitivity".into(), format!("sorted order is inconsistent: {:?} sorts before {:?} but compares Greater", sorted[i], sorted[j])));
                            }
                            Ordering::Less => seen_less = true,
                            Ordering::Equal => {
                                if seen_less && full {
                                    return Err(("transitivity".into(), format!("Equal pair {:?} / {:?} is separated by a strictly greater element", sorted[i], sorted[j])));
                                }
                            }
                        }
                    }
                }
                o.evals = evals;
                o.nontrivial = evals;
                o.note = Some(format!("{} strings sorted, {} ordered pairs re-checked ({})", n, evals, if full { "all" } else { "window + stride sample" }));
            }
            C13Case::Pair(a, b) => {
                o.label("pair");
                if a != b {
                    o.nontrivial_key(fnv1a(format!("{a}\0{b}").as_bytes()));
                }
                check_pair(a, b)?;
                if a == b && lib_cmp(a, b) != Ordering::Equal {
                    return Err(("reflexivity".into(), format!("cmp({a:?},{a:?}) != Equal")));
                }
            }
            C13Case::Triple(a, b, c) => {
                o.label("triple");
                o.nontrivial_key(fnv1a(format!("{a}\0{b}\0{c}").as_bytes()));
                check_triple(a, b, c)?;
                check_triple(b, a, c)?;
                check_triple(c, a, b)?;
            }
            C13Case::Evr { a, b, name_a, name_b, arch_a, arch_b } => {
                o.label("evr");
                o.nontrivial_key(fnv1a(format!("{a:?}{b:?}{name_a}{name_b}{arch_a}{arch_b}").as_bytes()));
                let ea = rpm::Evr::new(a.0.as_str(), a.1.as_str(), a.2.as_str());
                let eb = rpm::Evr::new(b.0.as_str(), b.1.as_str(), b.2.as_str());
                let want = vercmp::evr_cmp((&a.0, &a.1, &a.2), (&b.0, &b.1, &b.2));
                let got = ea.cmp(&eb);
                if got != want {
                    return Err(("evr-order".into(), format!("Evr{a:?}.cmp(Evr{b:?}) = {got:?}, expected {want:?}")));
                }
                if eb.cmp(&ea) != want.reverse() {
                    return Err(("antisymmetry".into(), format!("Evr{a:?} vs Evr{b:?}")));
                }
                if ea.partial_cmp(&eb) != Some(want) {
                    return Err(("evr-order".into(), "partial_cmp disagrees with cmp".into()));
                }
                if ea == eb {
                    o.label("evr-equal-values");
                    if got != Ordering::Equal {
                        return Err(("equal-not-equal".into(), format!("Evr{a:?} == Evr{b:?} but cmp = {got:?}")));
                    }
                }
                // string entry point (components here contain neither ':' nor '-')
                let plain = |e: &(String, String, String)| !e.0.contains([':', '-']) && !e.1.contains([':', '-']) && !e.2.contains(':');
                if plain(a) && plain(b) {
                    let f = |e: &(String, String, String)| if e.0.is_empty() { format!("{}-{}", e.1, e.2) } else { format!("{}:{}-{}", e.0, e.1, e.2) };
                    let viastr = rpm::rpm_evr_compare(&f(a), &f(b));
                    if viastr != want {
                        return Err(("evr-string-order".into(), format!("rpm_evr_compare({:?}, {:?}) = {viastr:?}, expected {want:?}", f(a), f(b))));
                    }
                }
                // NEVRA: name, then EVR, then arch
                let na = rpm::Nevra::new(name_a.as_str(), a.0.as_str(), a.1.as_str(), a.2.as_str(), arch_a.as_str());
                let nb = rpm::Nevra::new(name_b.as_str(), b.0.as_str(), b.1.as_str(), b.2.as_str(), arch_b.as_str());
                let wantn = vercmp::vercmp(name_a, name_b).then(want).then_with(|| vercmp::vercmp(arch_a, arch_b));
                let gotn = na.cmp(&nb);
                if gotn != wantn {
                    return Err(("nevra-order".into(), format!("Nevra({name_a:?},{a:?},{arch_a:?}).cmp(({name_b:?},{b:?},{arch_b:?})) = {gotn:?}, expected {wantn:?}")));
                }
                if na == nb && gotn != Ordering::Equal {
                    return Err(("equal-not-equal".into(), "equal NEVRAs do not compare Equal".into()));
                }
            }
        }
        Ok(())
    }
}
