//! C20 - timestamp conversion is exact inside the 32-bit range and an error outside.

use crate::engine::*;
use proptest::prelude::*;
use rpm::{Timestamp, TimestampError};
use serde::{Deserialize, Serialize};
use std::sync::Arc;
use std::time::{Duration, SystemTime, UNIX_EPOCH};

pub struct C20;

#[derive(Serialize, Deserialize, Clone, Debug)]
pub enum C20Case {
    /// instant = secs + nanos/1e9 (nanos always counted forward from the whole second)
    Instant { secs: i64, nanos: u32, tz_offset: i32 },
    /// extreme representable values (index into a fixed list)
    Extreme(u8),
    /// mtime of a source file handed to the builder
    FileMtime { secs: i64 },
}

fn expected(secs: i128) -> Result<u32, TimestampError> {
    if secs < 0 {
        Err(TimestampError::Underflow)
    } else if secs >= 1i128 << 32 {
        Err(TimestampError::Overflow)
    } else {
        Ok(secs as u32)
    }
}

fn system_time(secs: i64, nanos: u32) -> Option<SystemTime> {
    if secs >= 0 {
        UNIX_EPOCH.checked_add(Duration::new(secs as u64, nanos))
    } else {
        // secs + nanos/1e9 with secs negative: go back |secs| seconds, forward nanos
        UNIX_EPOCH.checked_sub(Duration::new(secs.unsigned_abs(), 0))?.checked_add(Duration::new(0, nanos))
    }
}

fn conv<T: TryInto<Timestamp, Error = TimestampError>>(t: T) -> Result<Result<u32, TimestampError>, String> {
    panics::catch(|| t.try_into().map(|t: Timestamp| t.0))
}

const OFFSETS: [i32; 15] = [0, 3600, -3600, 19800, 20700, -43200, 50400, 45900, -34200, 32, -32, 1172, -1172, 86399, -86399];

fn far_instants() -> &'static Vec<i64> {
    static V: std::sync::OnceLock<Vec<i64>> = std::sync::OnceLock::new();
    V.get_or_init(|| {
        let mut v: Vec<i64> = vec![];
        for k in 31..=62u32 {
            for d in [-1i64, 0, 1] {
                v.push((1i64 << k) + d);
                v.push(-((1i64 << k) + d));
            }
        }
        // 2^64 of a smaller unit, expressed in seconds (rounded both ways), and a few multiples
        for unit in [1_000u128, 1_000_000, 1_000_000_000] {
            let wrap = (1u128 << 64) / unit;
            for m in 1..=40u128 {
                for d in [0i128, 1, 2, 60, 4_294_967_295] {
                    let s = (wrap * m) as i128 + d;
                    if s < i64::MAX as i128 {
                        v.push(s as i64);
                    }
                }
            }
        }
        for m in 1..=64i64 {
            v.push(m << 32);
            v.push((m << 32) + 1);
        }
        v.sort();
        v.dedup();
        v
    })
}

impl Property for C20 {
    type Case = C20Case;
    const ID: &'static str = "C20";
    fn new(_t: Tier) -> Self {
        C20
    }
    fn rule(&self) -> String {
        "every second in windows of +-5000 (quick) / +-100000 (thorough) around 0, 2^31 and 2^32 with nanoseconds {0, 1, 5e8, 999999999}, each through SystemTime, chrono DateTime<Utc> and DateTime<FixedOffset> (15 offsets incl. :30/:45 zones, sub-minute offsets such as +00:19:32 and the extremes +-23:59:59); extreme representable values; every power of two (+-1) up to 2^62 s on both sides of the epoch and the multiples of 2^64 ms/us/ns and of 2^32 s; seeded random instants over +-2^40 s; builder source files with mtimes before 1970 and after 2106. Non-trivial = instant within 5000 s of a boundary or outside 0..2^32; distinct by (secs, nanos, offset).".into()
    }
    fn assumptions(&self) -> Vec<String> {
        vec!["expected value = floor(instant in seconds) computed in i128 from the construction parameters".into()]
    }
    fn required_labels(&self, _t: Tier) -> Vec<&'static str> {
        vec!["ok", "underflow", "overflow", "extreme", "file-mtime", "subsecond-negative"]
    }
    fn phases(&self, tier: Tier) -> Vec<Phase<C20Case>> {
        let w = tier.pick(5000, 100_000) as i64;
        let per = (2 * w + 1) as u64;
        vec![
            Phase::Enumerate {
                name: "boundary-windows",
                total: 3 * per * 4,
                exhaustive: true,
                gen: Arc::new(move |i| {
                    let nanos = [0u32, 1, 500_000_000, 999_999_999][(i % 4) as usize];
                    let j = i / 4;
                    let center = [0i64, 1 << 31, 1 << 32][(j / per) as usize];
                    let secs = center - w + (j % per) as i64;
                    Some(C20Case::Instant { secs, nanos, tz_offset: OFFSETS[(j % 15) as usize] })
                }),
            },
            Phase::Enumerate { name: "extremes", total: 10, exhaustive: true, gen: Arc::new(|i| Some(C20Case::Extreme(i as u8))) },
            // instants far from the 32-bit range: every power of two (+-1) up to 2^62 on both sides of
            // the epoch, and the multiples of 2^64 milliseconds / microseconds / nanoseconds and of
            // 2^32 seconds (where a conversion through a narrower unit would wrap back into range)
            Phase::Enumerate {
                name: "far-instants",
                total: far_instants().len() as u64 * 3,
                exhaustive: true,
                gen: Arc::new(|i| far_instants().get((i / 3) as usize).map(|s| C20Case::Instant { secs: *s, nanos: [0u32, 1, 999_999_999][(i % 3) as usize], tz_offset: 0 })),
            },
            Phase::Enumerate {
                name: "file-mtimes",
                total: 8,
                exhaustive: false,
                gen: Arc::new(|i| Some(C20Case::FileMtime { secs: [-1i64, -86_400, -2_000_000_000, 1 << 32, (1 << 32) + 5, 5_000_000_000, 0, (1 << 32) - 1][i as usize] })),
            },
            Phase::Random {
                name: "random-instants",
                cases: tier.pick(2_000_000, 20_000_000),
                strat: Arc::new(|| {
                    (prop_oneof![3 => -(1i64 << 33)..(1i64 << 34), 1 => -(1i64 << 40)..(1i64 << 40), 2 => 0i64..(1 << 32)], 0u32..1_000_000_000, proptest::sample::select(OFFSETS.to_vec()))
                        .prop_map(|(secs, nanos, tz_offset)| C20Case::Instant { secs, nanos, tz_offset })
                        .boxed()
                }),
            },
        ]
    }
    fn check(&self, case: &C20Case) -> Outcome {
        let mut o = Outcome::new();
        if let Err((c, d)) = inner(case, &mut o) {
            o.fail(&c, d);
        }
        o
    }
}

fn cmp_result(what: &str, got: Result<Result<u32, TimestampError>, String>, want: Result<u32, TimestampError>) -> Result<(), (String, String)> {
    match got {
        Err(p) => Err(("panic".into(), format!("{what}: {p}"))),
        Ok(g) if g == want => Ok(()),
        Ok(g) => Err(("wrong-conversion".into(), format!("{what}: got {g:?}, expected {want:?}"))),
    }
}

fn inner(case: &C20Case, o: &mut Outcome) -> Result<(), (String, String)> {
    use chrono::TimeZone;
    match case {
        C20Case::Instant { secs, nanos, tz_offset } => {
            let want = expected(*secs as i128);
            o.label(match want {
                Ok(_) => "ok",
                Err(TimestampError::Underflow) => "underflow",
                Err(TimestampError::Overflow) => "overflow",
            });
            if *secs < 0 && *nanos > 0 {
                o.label("subsecond-negative");
            }
            let near = [0i64, 1 << 31, 1 << 32].iter().any(|c| (secs - c).abs() <= 5000);
            if near || want.is_err() {
                o.nontrivial_key(fnv1a(format!("{secs}/{nanos}/{tz_offset}").as_bytes()));
            }
            if let Some(st) = system_time(*secs, *nanos) {
                cmp_result(&format!("SystemTime({secs}s+{nanos}ns)"), conv(st), want)?;
                // order preservation, judged with Timestamp's own ordering, against anchors
                // that are near and far (more than 2^31 s away)
                if want.is_ok() {
                    if let Ok(Ok(t)) = panics::catch(|| Timestamp::try_from(st)) {
                        for a in [0i64, 1, 86_400, (1 << 31) - 1, 1 << 31, (1 << 31) + 1, (1 << 32) - 2, (1 << 32) - 1] {
                            let ta: Timestamp = match system_time(a, 0).map(Timestamp::try_from) {
                                Some(Ok(x)) => x,
                                _ => continue,
                            };
                            let want_ord = secs.cmp(&a);
                            let got_ord = t.cmp(&ta);
                            let partial = t.partial_cmp(&ta);
                            let ops_ok = (t < ta) == (want_ord == std::cmp::Ordering::Less) && (t > ta) == (want_ord == std::cmp::Ordering::Greater) && (t == ta) == (want_ord == std::cmp::Ordering::Equal) && (t <= ta) == (want_ord != std::cmp::Ordering::Greater) && (t >= ta) == (want_ord != std::cmp::Ordering::Less);
                            if got_ord != want_ord || partial != Some(want_ord) || !ops_ok || t.max(ta) != (if *secs >= a { t } else { ta }) {
                                return Err(("order".into(), format!("instant {secs}s is {want_ord:?} instant {a}s but their timestamps compare {got_ord:?} (partial_cmp {partial:?})")));
                            }
                        }
                    }
                }
                // order preservation against the next whole second
                if let (Some(st2), Ok(a)) = (system_time(secs + 1, *nanos), want) {
                    if let Ok(Ok(b)) = conv(st2) {
                        if b < a {
                            return Err(("order".into(), format!("t={secs} converts to {a} but t+1 converts to {b}")));
                        }
                    }
                }
            }
            // chrono's leap-second representation (second 59 with nanoseconds >= 1e9): whether the
            // leap second counts as part of second 59 or of the following second is a matter of
            // convention, so either answer is accepted - but nothing else, and no panic
            if secs.rem_euclid(60) == 59 {
                if let chrono::LocalResult::Single(dt) = chrono::Utc.timestamp_opt(*secs, 1_000_000_000 + *nanos) {
                    o.label("leap-second");
                    let allowed = [want, expected(*secs as i128 + 1)];
                    match conv(dt) {
                        Err(p) => return Err(("panic".into(), format!("leap second after {secs}s: {p}"))),
                        Ok(g) if allowed.contains(&g) => {}
                        Ok(g) => return Err(("wrong-conversion".into(), format!("leap second after {secs}s (+{nanos}ns): got {g:?}, expected one of {allowed:?}"))),
                    }
                }
            }
            if let chrono::LocalResult::Single(dt) = chrono::Utc.timestamp_opt(*secs, *nanos) {
                cmp_result(&format!("DateTime<Utc>({secs}s+{nanos}ns)"), conv(dt), want)?;
                if let Some(tz) = chrono::FixedOffset::east_opt(*tz_offset) {
                    let local = dt.with_timezone(&tz);
                    cmp_result(&format!("DateTime<FixedOffset {tz_offset}>({secs}s+{nanos}ns)"), conv(local), want)?;
                }
            }
        }
        C20Case::Extreme(i) => {
            o.label("extreme");
            o.nontrivial_key(*i as u64);
            match i {
                0 => cmp_result("DateTime::MIN_UTC", conv(chrono::DateTime::<chrono::Utc>::MIN_UTC), Err(TimestampError::Underflow))?,
                1 => cmp_result("DateTime::MAX_UTC", conv(chrono::DateTime::<chrono::Utc>::MAX_UTC), Err(TimestampError::Overflow))?,
                2 => {
                    let tz = chrono::FixedOffset::east_opt(14 * 3600).unwrap();
                    cmp_result("MAX_UTC at +14:00", conv(chrono::DateTime::<chrono::Utc>::MAX_UTC.with_timezone(&tz)), Err(TimestampError::Overflow))?
                }
                3 => {
                    let tz = chrono::FixedOffset::west_opt(12 * 3600).unwrap();
                    cmp_result("MIN_UTC at -12:00", conv(chrono::DateTime::<chrono::Utc>::MIN_UTC.with_timezone(&tz)), Err(TimestampError::Underflow))?
                }
                4 => {
                    if let Some(t) = UNIX_EPOCH.checked_add(Duration::new(i64::MAX as u64 - 1, 999_999_999)) {
                        cmp_result("largest SystemTime", conv(t), Err(TimestampError::Overflow))?
                    }
                }
                5 => {
                    if let Some(t) = UNIX_EPOCH.checked_sub(Duration::new(i64::MAX as u64, 0)) {
                        cmp_result("smallest SystemTime", conv(t), Err(TimestampError::Underflow))?
                    }
                }
                6 => cmp_result("UNIX_EPOCH", conv(UNIX_EPOCH), Ok(0))?,
                7 => cmp_result("epoch - 1ns", conv(UNIX_EPOCH - Duration::new(0, 1)), Err(TimestampError::Underflow))?,
                8 => cmp_result("2^32 s - 1ns", conv(UNIX_EPOCH + Duration::new((1 << 32) - 1, 999_999_999)), Ok(u32::MAX))?,
                _ => cmp_result("u64::MAX seconds (if representable)", match UNIX_EPOCH.checked_add(Duration::new(u64::MAX / 4, 0)) { Some(t) => conv(t), None => Ok(Err(TimestampError::Overflow)) }, Err(TimestampError::Overflow))?,
            }
        }
        C20Case::FileMtime { secs } => {
            o.label("file-mtime");
            o.nontrivial_key(*secs as u64);
            let dir = crate::gen::builder::TempDir::new("c20");
            let src = dir.0.join("f");
            std::fs::write(&src, b"x").map_err(|e| ("harness-io".to_string(), e.to_string()))?;
            let Some(t) = system_time(*secs, 0) else { return Ok(()) };
            let fh = std::fs::OpenOptions::new().write(true).open(&src).map_err(|e| ("harness-io".to_string(), e.to_string()))?;
            if fh.set_modified(t).is_err() {
                return Ok(()); // file system cannot store it
            }
            drop(fh);
            // what the file system really stored decides the expectation
            let stored = std::fs::metadata(&src).and_then(|m| m.modified()).map_err(|e| ("harness-io".to_string(), e.to_string()))?;
            let stored_secs: i128 = match stored.duration_since(UNIX_EPOCH) {
                Ok(d) => d.as_secs() as i128,
                Err(e) => -(e.duration().as_secs() as i128) - i128::from(e.duration().subsec_nanos() > 0),
            };
            let want = expected(stored_secs);
            let r = panics::catch(|| {
                rpm::PackageBuilder::new("t", "1", "MIT", "noarch", "s").with_file(&src, rpm::FileOptions::new("/f")).map(|_| ())
            });
            match (r, want) {
                (Err(p), _) => return Err(("panic".into(), format!("with_file on mtime {secs}: {p}"))),
                (Ok(Ok(())), Ok(_)) => {}
                (Ok(Err(rpm::Error::TimestampConv(e))), Err(w)) if e == w => {}
                (Ok(other), w) => return Err(("wrong-conversion".into(), format!("with_file on a source with mtime {stored_secs}: {:?}, expected {:?}", other.map_err(|e| e.to_string()), w))),
            }
        }
    }
    Ok(())
}
