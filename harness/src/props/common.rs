//! shared case type for the byte-level properties (C01, C04, C16)

use crate::engine::hexser;
use crate::gen::mutate::{self, Mutation};
use crate::gen::pool::pool;
use crate::refimpl::fmt::{self, RawPackage};
use proptest::prelude::*;
use serde::{Deserialize, Serialize};

#[derive(Serialize, Deserialize, Clone, Debug)]
pub enum PkgCase {
    /// hand-encoded from a model
    Raw(RawPackage),
    /// pool package `base` with mutations applied inside `region`
    Mutated {
        base: u16,
        /// 0 all, 1 metadata, 2 signature header, 3 main header, 4 payload, 5 main index, 6 main store
        region: u8,
        muts: Vec<Mutation>,
    },
    /// hand-encoded package, then mutated
    RawMutated { pkg: RawPackage, muts: Vec<Mutation> },
    Pool(u16),
    Truncated { base: u16, at: u32 },
    Bytes(#[serde(with = "hexser")] Vec<u8>),
}

pub fn region_range(bytes: &[u8], region: u8) -> std::ops::Range<usize> {
    let all = 0..bytes.len();
    let Ok(seg) = fmt::decode(bytes) else { return all };
    match region {
        1 => 0..seg.payload_start,
        2 => seg.sig.start..seg.sig.end,
        3 => seg.hdr.start..seg.hdr.end,
        4 => seg.payload_start..bytes.len(),
        5 => seg.hdr.start..seg.hdr.store_start,
        6 => seg.hdr.store_start..seg.hdr.end,
        _ => all,
    }
}

impl PkgCase {
    pub fn bytes(&self) -> Vec<u8> {
        match self {
            PkgCase::Raw(r) => r.encode(),
            PkgCase::Pool(i) => {
                let p = pool();
                p[*i as usize % p.len()].bytes.clone()
            }
            PkgCase::Truncated { base, at } => {
                let p = pool();
                let b = &p[*base as usize % p.len()].bytes;
                b[..(*at as usize).min(b.len())].to_vec()
            }
            PkgCase::Mutated { base, region, muts } => {
                let p = pool();
                let mut b = p[*base as usize % p.len()].bytes.clone();
                let r = region_range(&b, *region);
                mutate::apply(&mut b, r, muts);
                b
            }
            PkgCase::RawMutated { pkg, muts } => {
                let mut b = pkg.encode();
                let n = b.len();
                mutate::apply(&mut b, 0..n, muts);
                b
            }
            PkgCase::Bytes(b) => b.clone(),
        }
    }
    pub fn kind(&self) -> &'static str {
        match self {
            PkgCase::Raw(_) => "constructed",
            PkgCase::Pool(_) => "pool",
            PkgCase::Truncated { .. } => "truncated",
            PkgCase::Mutated { .. } => "pool-mutated",
            PkgCase::RawMutated { .. } => "constructed-mutated",
            PkgCase::Bytes(_) => "raw-bytes",
        }
    }
}

/// pool indices of items not larger than `max` bytes
pub fn small_pool_indices(max: usize) -> Vec<u16> {
    pool()
        .iter()
        .enumerate()
        .filter(|(_, i)| i.bytes.len() <= max)
        .map(|(i, _)| i as u16)
        .collect()
}

pub fn mutated_pool(max_size: usize, max_muts: usize) -> BoxedStrategy<PkgCase> {
    let idx = small_pool_indices(max_size);
    (
        proptest::sample::select(idx),
        prop_oneof![2 => Just(1u8), 1 => Just(2u8), 2 => Just(3u8), 1 => Just(5u8), 1 => Just(6u8), 1 => Just(0u8), 1 => Just(4u8)],
        proptest::collection::vec(mutate::mutation(), 1..=max_muts),
    )
        .prop_map(|(base, region, muts)| PkgCase::Mutated { base, region, muts })
        .boxed()
}

/// describe where two byte strings first differ
pub fn first_diff(a: &[u8], b: &[u8]) -> String {
    let n = a.len().min(b.len());
    for i in 0..n {
        if a[i] != b[i] {
            return format!("first difference at offset {} ({:#04x} vs {:#04x}); lengths {} vs {}", i, a[i], b[i], a.len(), b.len());
        }
    }
    format!("common prefix of {} bytes; lengths {} vs {}", n, a.len(), b.len())
}

/// A reader that hands out at most `chunk` bytes per call - what a pipe or socket does.
pub struct Chunked<'a> {
    pub data: &'a [u8],
    pub chunk: usize,
}

impl std::io::Read for Chunked<'_> {
    fn read(&mut self, b: &mut [u8]) -> std::io::Result<usize> {
        let n = b.len().min(self.chunk.max(1)).min(self.data.len());
        b[..n].copy_from_slice(&self.data[..n]);
        self.data = &self.data[n..];
        Ok(n)
    }
}

/// Parses the same bytes through one of several equivalent `BufRead` sources, chosen by `sel`
/// (callers derive it from a hash of the bytes): 0 = the slice itself, 1..=5 = BufReaders of
/// capacity 1 / 3 / 13 / 64 / 8192 over readers that return 1 / 2 / 5 / 7 / 4096 bytes per call.
/// What is parsed must not depend on the source.
pub fn with_source<T>(bytes: &[u8], sel: u64, f: impl FnOnce(&mut dyn std::io::BufRead) -> T) -> T {
    match sel % 6 {
        0 => f(&mut &bytes[..]),
        1 => f(&mut std::io::BufReader::with_capacity(1, Chunked { data: bytes, chunk: 1 })),
        2 => f(&mut std::io::BufReader::with_capacity(3, Chunked { data: bytes, chunk: 2 })),
        3 => f(&mut std::io::BufReader::with_capacity(13, Chunked { data: bytes, chunk: 5 })),
        4 => f(&mut std::io::BufReader::with_capacity(64, Chunked { data: bytes, chunk: 7 })),
        _ => f(&mut std::io::BufReader::with_capacity(8192, Chunked { data: bytes, chunk: 4096 })),
    }
}
