//! shared helpers for the builder-based properties (C06-C09, C11, C12)

use crate::engine::panics;
use crate::gen::builder::*;
use proptest::prelude::*;
use serde::{Deserialize, Serialize};

pub struct BuiltPkg {
    pub pkg: rpm::Package,
    pub bytes: Vec<u8>,
    /// supplied files in cpio-name byte order, with content
    pub files: Vec<(FileSpec, Vec<u8>)>,
}

pub fn write_pkg(p: &rpm::Package) -> Result<Vec<u8>, (String, String)> {
    match panics::catch(|| {
        let mut v = Vec::new();
        p.write(&mut v).map(|_| v)
    }) {
        Ok(Ok(v)) => Ok(v),
        Ok(Err(e)) => Err(("write-failed".into(), e.to_string())),
        Err(p) => Err(("write-panic".into(), p)),
    }
}

pub fn parse_pkg(b: &[u8]) -> Result<rpm::Package, (String, String)> {
    match panics::catch(|| rpm::Package::parse(&mut &b[..])) {
        Ok(Ok(v)) => Ok(v),
        Ok(Err(e)) => Err(("reparse-failed".into(), format!("the package just written is rejected: {e}"))),
        Err(p) => Err(("reparse-panic".into(), p)),
    }
}

/// build a (valid) configuration; failure to build is reported under clause "build-failed"/"build-panic"
pub fn build_and_write(cfg: &BuilderConfig) -> Result<BuiltPkg, (String, String)> {
    let built = match panics::catch(|| build(cfg)) {
        Ok(b) => b,
        Err(p) => return Err(("build-panic".into(), p)),
    };
    let pkg = match built.result {
        Ok(p) => p,
        Err(e) => return Err(("build-failed".into(), format!("a valid configuration was refused: {e}"))),
    };
    let bytes = write_pkg(&pkg)?;
    Ok(BuiltPkg { pkg, bytes, files: built.files })
}

#[derive(Serialize, Deserialize, Clone, Debug, PartialEq)]
pub enum Op {
    Sign(u8),
    Clear,
    Reparse,
    /// `Package::sign` (signature time = now) instead of sign_with_timestamp
    SignNow(u8),
    /// `pkg.metadata.signature.clear()` - the public in-place reset of the signature header
    ClearSigInPlace,
    /// `pkg.metadata.signature = Header::new_empty()`
    EmptySig,
    /// a signing ATTEMPT that fails: 0 = caller-written signer that reads the data and then
    /// returns an error, 1 = one that fails at once, 2 = the passphrase-protected key without
    /// its passphrase, 3 = a signer whose output is not an OpenPGP signature packet (not used
    /// by C10, whose model has no opinion on it). No signing is performed.
    SignFail(u8),
}

#[derive(Debug)]
pub struct FailingSigner {
    pub read_all: bool,
    /// return these bytes as "the signature" instead of an error
    pub garbage: Option<Vec<u8>>,
}

impl rpm::signature::Signing for FailingSigner {
    type Signature = Vec<u8>;
    fn sign(&self, mut data: impl std::io::Read, _t: rpm::Timestamp) -> Result<Vec<u8>, rpm::Error> {
        if self.read_all {
            let mut sink = Vec::new();
            let _ = data.read_to_end(&mut sink);
        }
        if let Some(g) = &self.garbage {
            return Ok(g.clone());
        }
        Err(rpm::Error::from(std::io::Error::new(std::io::ErrorKind::Other, "the signing service is unavailable")))
    }
    fn algorithm(&self) -> rpm::signature::AlgorithmType {
        rpm::signature::AlgorithmType::RSA
    }
}

fn locked_signer() -> rpm::signature::pgp::Signer {
    static S: std::sync::OnceLock<rpm::signature::pgp::Signer> = std::sync::OnceLock::new();
    S.get_or_init(|| {
        let sec = std::fs::read(crate::engine::verif_root().join("assets/keys/secret_rsa3072_protected.asc")).expect("protected key");
        rpm::signature::pgp::Signer::load_from_asc_bytes(&sec).expect("load protected key without passphrase")
    })
    .clone()
}

pub fn op_any() -> BoxedStrategy<Op> {
    prop_oneof![6 => (0u8..4).prop_map(Op::Sign), 4 => Just(Op::Clear), 2 => Just(Op::Reparse), 1 => (0u8..4).prop_map(Op::SignFail)].boxed()
}

/// cheap signers only (the passphrase-protected RSA key costs 180 ms per signature)
pub fn op_cheap() -> BoxedStrategy<Op> {
    prop_oneof![6 => proptest::sample::select(vec![0u8, 2, 3]).prop_map(Op::Sign), 4 => Just(Op::Clear), 2 => Just(Op::Reparse), 1 => proptest::sample::select(vec![0u8, 1, 3]).prop_map(Op::SignFail)].boxed()
}

pub const SIGN_TIME: u32 = 1_600_000_000;

pub fn apply_op(pkg: &mut rpm::Package, op: &Op) -> Result<(), (String, String)> {
    let r = panics::catch(|| -> Result<(), rpm::Error> {
        match op {
            Op::Sign(k) => {
                let ks = crate::gen::keys::keys();
                pkg.sign_with_timestamp(ks.signers[*k as usize % 4].clone(), SIGN_TIME)
            }
            Op::SignNow(k) => {
                let ks = crate::gen::keys::keys();
                pkg.sign(ks.signers[*k as usize % 4].clone())
            }
            Op::SignFail(k) => {
                let r = match k % 4 {
                    0 => pkg.sign_with_timestamp(FailingSigner { read_all: true, garbage: None }, SIGN_TIME),
                    1 => pkg.sign(FailingSigner { read_all: false, garbage: None }),
                    2 => pkg.sign_with_timestamp(locked_signer(), SIGN_TIME),
                    _ => pkg.sign_with_timestamp(FailingSigner { read_all: true, garbage: Some(b"\x00not an OpenPGP packet".to_vec()) }, SIGN_TIME),
                };
                // the attempt is expected to fail; whether it does is not what is judged here
                let _ = r;
                Ok(())
            }
            Op::Clear => pkg.clear_signatures(),
            Op::ClearSigInPlace => {
                pkg.metadata.signature.clear();
                Ok(())
            }
            Op::EmptySig => {
                pkg.metadata.signature = rpm::Header::<rpm::IndexSignatureTag>::new_empty();
                Ok(())
            }
            Op::Reparse => {
                // written either into a Vec or into a writer that accepts at most 11 bytes per
                // call (what a pipe or socket may do)
                struct Trickle(Vec<u8>);
                impl std::io::Write for Trickle {
                    fn write(&mut self, b: &[u8]) -> std::io::Result<usize> {
                        let n = b.len().min(11);
                        self.0.extend_from_slice(&b[..n]);
                        Ok(n)
                    }
                    fn flush(&mut self) -> std::io::Result<()> {
                        Ok(())
                    }
                }
                let v = if pkg.content.len() % 3 == 1 {
                    let mut t = Trickle(Vec::new());
                    pkg.write(&mut t)?;
                    t.0
                } else {
                    let mut v = Vec::new();
                    pkg.write(&mut v)?;
                    v
                };
                // alternately from a slice and from a small-buffered reader over 5-byte reads
                *pkg = if v.len() % 2 == 0 {
                    rpm::Package::parse(&mut &v[..])?
                } else {
                    struct Five<'a>(&'a [u8]);
                    impl std::io::Read for Five<'_> {
                        fn read(&mut self, b: &mut [u8]) -> std::io::Result<usize> {
                            let n = b.len().min(5).min(self.0.len());
                            b[..n].copy_from_slice(&self.0[..n]);
                            self.0 = &self.0[n..];
                            Ok(n)
                        }
                    }
                    rpm::Package::parse(&mut std::io::BufReader::with_capacity(13, Five(&v)))?
                };
                Ok(())
            }
        }
    });
    match r {
        Ok(Ok(())) => Ok(()),
        Ok(Err(e)) => Err(("op-failed".into(), format!("{op:?}: {e}"))),
        Err(p) => Err(("op-panic".into(), format!("{op:?}: {p}"))),
    }
}

pub fn comp_label(c: &Comp) -> String {
    format!("comp-{}", c.name())
}
