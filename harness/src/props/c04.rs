//! C04 - untrusted bytes never crash the reader: no panic, abort, arithmetic overflow or
//! disproportionate allocation from any read-side entry point.

use super::common::*;
use crate::engine::*;
use crate::gen::filepkg::{self, ModelFile};
use crate::gen::pool::pool;
use crate::gen::raw;
use crate::refimpl::cpio::CpioSpec;
use crate::refimpl::fmt::{self, RawEntry, RawPackage, Val};
use crate::refimpl::tags;
use proptest::prelude::*;
use serde::{Deserialize, Serialize};
use std::sync::Arc;

pub struct C04;

#[derive(Serialize, Deserialize, Clone, Debug)]
pub enum C04Case {
    Pkg(PkgCase),
    /// one index entry with boundary offset/count/type injected into a valid hand-encoded package
    Boundary {
        sig: bool,
        typ: u32,
        offset_sel: u8,
        count_sel: u8,
        tag_sel: u8,
        terminated: bool,
    },
    /// boundary values in the il/dl fields of one intro
    Intro { sig: bool, il_sel: u8, dl_sel: u8 },
    /// one byte of the metadata region of a pool package replaced
    Subst { base: u16, at: u32, how: u8 },
    /// hand-encoded package without compressor tag around a (possibly hostile) cpio archive
    Cpio {
        files: Vec<ModelFile>,
        archive: Vec<CpioSpec>,
        long_sizes: bool,
        /// header-side file sizes overridden: (file index, size) written to FILESIZES / LONGFILESIZES
        #[serde(default)]
        size_overrides: Vec<(u8, u64)>,
    },
    /// a package with `count` files in one directory and an archive of `count` entries:
    /// kind 0 one hard-link set (nlink = count, header sizes 1, data only with the last entry), 1 empty files, 2 one-byte files,
    /// 3 every entry carrying the name of the first file, 4 stripped (index-only) entries,
    /// 5 names the header does not list, 6 directories
    Many { count: u32, kind: u8 },
}

const OFFSET_SELS: u8 = 8;
const COUNT_SELS: u8 = 7;
const MAIN_BTAGS: [u32; 7] = [tags::NAME, tags::SUMMARY, tags::FILEMODES, tags::BASENAMES, tags::PAYLOADDIGEST, tags::DIRINDEXES, tags::PAYLOADDIGESTALGO];
const SIG_BTAGS: [u32; 7] = [tags::SIG_SHA256, tags::SIG_OPENPGP, tags::SIG_MD5, tags::SIG_RSA, tags::SIG_DSA, tags::SIG_PGP, tags::SIG_FILESIGNATURES];
const INTRO_VALS: [u64; 12] = [0, 1, 0xffff, 0x10000, 0x0fff_ffff, 0x1000_0000, 0x7fff_ffff, 0x8000_0000, 0xffff_fff0, 0xffff_ffff, /* actual-1 */ u64::MAX - 1, /* actual+1 */ u64::MAX];

fn base_hand_package() -> RawPackage {
    let files = vec![ModelFile {
        dir: "/usr/share/".into(),
        base: "x.txt".into(),
        mode: 0o100644,
        mtime: 1,
        flags: 0,
        user: "root".into(),
        group: "root".into(),
        linkto: String::new(),
        content: b"hello".to_vec(),
    }];
    let mut main = filepkg::basic_entries("boundary");
    main.extend(filepkg::file_entries(&files, false));
    let payload = crate::refimpl::cpio::write_archive(&filepkg::archive_for(&files));
    filepkg::wrap(main, payload, true)
}

impl C04Case {
    pub fn bytes(&self) -> Vec<u8> {
        match self {
            C04Case::Pkg(p) => p.bytes(),
            C04Case::Boundary { sig, typ, offset_sel, count_sel, tag_sel, terminated } => {
                let mut p = base_hand_package();
                let h = if *sig { &mut p.sig } else { &mut p.hdr };
                if !*terminated {
                    for b in h.store.iter_mut() {
                        if *b == 0 {
                            *b = b'A';
                        }
                    }
                }
                let len = h.store.len() as i64;
                let offset = match offset_sel {
                    0 => -1,
                    1 => 0,
                    2 => len - 1,
                    3 => len,
                    4 => len + 1,
                    5 => i32::MIN as i64,
                    6 => i32::MAX as i64,
                    _ => len / 2,
                } as i32;
                let count = match count_sel {
                    0 => 0,
                    1 => 1,
                    2 => len as u32,
                    3 => len as u32 + 1,
                    4 => 1 << 28,
                    5 => u32::MAX,
                    _ => 2,
                };
                let tag = if *sig { SIG_BTAGS[*tag_sel as usize % 7] } else { MAIN_BTAGS[*tag_sel as usize % 7] };
                h.entries.retain(|e| e.tag != tag);
                h.entries.push(RawEntry { tag, typ: *typ, offset, count });
                h.il = h.entries.len() as u32;
                p.encode()
            }
            C04Case::Intro { sig, il_sel, dl_sel } => {
                let mut p = base_hand_package();
                let h = if *sig { &mut p.sig } else { &mut p.hdr };
                let pickv = |sel: u8, actual: u32| -> u32 {
                    match INTRO_VALS[sel as usize % INTRO_VALS.len()] {
                        v if v == u64::MAX - 1 => actual.wrapping_sub(1),
                        u64::MAX => actual.wrapping_add(1),
                        v => v as u32,
                    }
                };
                h.il = pickv(*il_sel, h.il);
                h.dl = pickv(*dl_sel, h.dl);
                p.encode()
            }
            C04Case::Subst { base, at, how } => {
                let p = pool();
                let mut b = p[*base as usize % p.len()].bytes.clone();
                let i = (*at as usize).min(b.len().saturating_sub(1));
                b[i] = match how {
                    0 => 0,
                    1 => 0xff,
                    2 => b[i] ^ 0x80,
                    _ => b[i].wrapping_add(1),
                };
                b
            }
            C04Case::Cpio { files, archive, long_sizes, size_overrides } => {
                let mut main = filepkg::basic_entries("cpio");
                let mut fe = filepkg::file_entries(files, *long_sizes);
                for (tag, v) in fe.iter_mut() {
                    for (i, size) in size_overrides {
                        match v {
                            Val::Int64(a) if *tag == tags::LONGFILESIZES && !a.is_empty() => {
                                let n = a.len();
                                a[*i as usize % n] = *size
                            }
                            Val::Int32(a) if *tag == tags::FILESIZES && !a.is_empty() => {
                                let n = a.len();
                                a[*i as usize % n] = *size as u32
                            }
                            _ => {}
                        }
                    }
                }
                main.extend(fe);
                let payload = crate::refimpl::cpio::write_archive(archive);
                filepkg::wrap(main, payload, true).encode()
            }
            C04Case::Many { count, kind } => {
                let one = matches!(kind, 0 | 2);
                let files: Vec<ModelFile> = (0..*count)
                    .map(|i| ModelFile { dir: "/d/".into(), base: format!("f{i:07}"), mode: if *kind == 6 { 0o040755 } else { 0o100644 }, mtime: 1, flags: 0, user: "root".into(), group: "root".into(), linkto: String::new(), content: if one { vec![b'x'] } else { vec![] } })
                    .collect();
                let mut archive: Vec<CpioSpec> = files
                    .iter()
                    .enumerate()
                    .map(|(i, f)| match kind {
                        4 => CpioSpec::stripped(i as u32, f.content.clone()),
                        _ => {
                            let name = match kind {
                                3 => files[0].cpio_name(),
                                5 => format!("./zz/{i}"),
                                _ => f.cpio_name(),
                            };
                            // hard-link set as rpm lays it out: every link has an entry, only the last carries the data
                            let data = if *kind == 0 && i + 1 != *count as usize { vec![] } else { f.content.clone() };
                            let mut e = CpioSpec::newc(&name, f.mode as u32, if *kind == 0 { 7 } else { i as u32 + 1 }, data);
                            if *kind == 0 {
                                e.nlink = *count;
                            }
                            e
                        }
                    })
                    .collect();
                archive.push(CpioSpec::trailer());
                let mut main = filepkg::basic_entries("many");
                main.extend(filepkg::file_entries(&files, *kind == 4));
                let payload = crate::refimpl::cpio::write_archive(&archive);
                filepkg::wrap(main, payload, true).encode()
            }
        }
    }
}

#[derive(Debug)]
struct AcceptAll;
impl rpm::signature::Verifying for AcceptAll {
    type Signature = Vec<u8>;
    fn verify(&self, mut data: impl std::io::Read, _sig: &[u8]) -> Result<(), rpm::Error> {
        let mut sink = Vec::new();
        let _ = data.read_to_end(&mut sink);
        Ok(())
    }
    fn algorithm(&self) -> rpm::signature::AlgorithmType {
        rpm::signature::AlgorithmType::RSA
    }
}

pub struct SweepInfo {
    pub accepted: bool,
    pub meta_accepted: bool,
    pub files_iterated: Option<usize>,
    pub past_lead: bool,
    pub pkg: Option<rpm::Package>,
}

macro_rules! guard {
    ($name:expr, $e:expr) => {{
        let r = panics::catch(|| $e);
        note_alloc(&$name.to_string());
        match r {
            Ok(v) => v,
            Err(p) => return Err(("panic".to_string(), format!("{}: {}", $name, p))),
        }
    }};
}

thread_local! {
    static BIGGEST: std::cell::RefCell<(usize, String)> = const { std::cell::RefCell::new((0, String::new())) };
}

/// remember which entry point made the largest single allocation request so far
fn note_alloc(name: &str) {
    let (max_req, _) = crate::engine::alloc::snapshot();
    BIGGEST.with(|b| {
        let mut b = b.borrow_mut();
        if max_req > b.0 {
            *b = (max_req, name.to_string());
        }
    });
}

/// every public read-side entry point on `x`; Err((clause, detail)) on the first panic
pub fn sweep(x: &[u8]) -> Result<SweepInfo, (String, String)> {
    use num_traits::FromPrimitive;
    let mut info = SweepInfo {
        accepted: false,
        meta_accepted: false,
        files_iterated: None,
        past_lead: x.len() >= 96 && x[..4] == fmt::LEAD_MAGIC,
        pkg: None,
    };
    let m = guard!("PackageMetadata::parse", rpm::PackageMetadata::parse(&mut &x[..]));
    info.meta_accepted = m.is_ok();
    let p = guard!("Package::parse", rpm::Package::parse(&mut &x[..]));
    let Ok(p) = p else { return Ok(info) };
    info.accepted = true;
    let md = &p.metadata;
    guard!("accessors", {
        let _ = md.is_source_package();
        let _ = md.get_name();
        let _ = md.get_epoch();
        let _ = md.get_version();
        let _ = md.get_release();
        let _ = md.get_arch();
        let _ = md.get_vendor();
        let _ = md.get_url();
        let _ = md.get_vcs();
        let _ = md.get_license();
        let _ = md.get_packager();
        let _ = md.get_build_time();
        let _ = md.get_build_host();
        let _ = md.get_cookie();
        let _ = md.get_source_rpm();
        let _ = md.get_installed_size();
        let _ = md.get_payload_compressor();
        let _ = md.get_file_digest_algorithm();
        let _ = md.get_package_segment_offsets();
    });
    guard!("get_summary", { let _ = md.get_summary(); });
    guard!("get_description", { let _ = md.get_description(); });
    guard!("get_group", { let _ = md.get_group(); });
    guard!("scriptlets", {
        let _ = md.get_pre_install_script();
        let _ = md.get_post_install_script();
        let _ = md.get_pre_uninstall_script();
        let _ = md.get_post_uninstall_script();
        let _ = md.get_pre_trans_script();
        let _ = md.get_post_trans_script();
        let _ = md.get_pre_untrans_script();
        let _ = md.get_post_untrans_script();
    });
    guard!("dependencies", {
        let _ = md.get_provides();
        let _ = md.get_requires();
        let _ = md.get_conflicts();
        let _ = md.get_obsoletes();
        let _ = md.get_recommends();
        let _ = md.get_suggests();
        let _ = md.get_enhances();
        let _ = md.get_supplements();
    });
    guard!("get_changelog_entries", { let _ = md.get_changelog_entries(); });
    guard!("get_file_paths", { let _ = md.get_file_paths(); });
    guard!("get_file_entries", { let _ = md.get_file_entries(); });
    // typed getters on every known tag that is present
    if let Ok(seg) = fmt::decode(x) {
        for e in &seg.hdr.entries {
            if let Some(t) = rpm::IndexTag::from_u32(e.tag) {
                guard!("Header<IndexTag>::get_entry_data_as_*", {
                    let h = &md.header;
                    let _ = h.entry_is_present(t);
                    let _ = h.get_entry_data_as_binary(t);
                    let _ = h.get_entry_data_as_string(t);
                    let _ = h.get_entry_data_as_i18n_string(t);
                    let _ = h.get_entry_data_as_u16_array(t);
                    let _ = h.get_entry_data_as_u32(t);
                    let _ = h.get_entry_data_as_u32_array(t);
                    let _ = h.get_entry_data_as_u64(t);
                    let _ = h.get_entry_data_as_u64_array(t);
                    let _ = h.get_entry_data_as_string_array(t);
                });
            }
        }
        for e in &seg.sig.entries {
            if let Some(t) = rpm::IndexSignatureTag::from_u32(e.tag) {
                guard!("Header<IndexSignatureTag>::get_entry_data_as_*", {
                    let h = &md.signature;
                    let _ = h.entry_is_present(t);
                    let _ = h.get_entry_data_as_binary(t);
                    let _ = h.get_entry_data_as_string(t);
                    let _ = h.get_entry_data_as_i18n_string(t);
                    let _ = h.get_entry_data_as_u16_array(t);
                    let _ = h.get_entry_data_as_u32(t);
                    let _ = h.get_entry_data_as_u32_array(t);
                    let _ = h.get_entry_data_as_u64(t);
                    let _ = h.get_entry_data_as_u64_array(t);
                    let _ = h.get_entry_data_as_string_array(t);
                });
            }
        }
    }
    guard!("Display/Debug", {
        let _ = format!("{}", md.header).len();
        let _ = format!("{}", md.signature).len();
        let _ = format!("{:?}", md.header).len();
        let _ = format!("{:?}", md.signature).len();
        let _ = format!("{:?}", md.lead).len();
    });
    guard!("Package::write", {
        let mut w = Vec::new();
        let _ = p.write(&mut w);
    });
    guard!("verify_digests", { let _ = p.verify_digests(); });
    guard!("verify_signature(accept-all)", { let _ = p.verify_signature(AcceptAll); });
    // payload iteration: only uncompressed payloads are inside the statement
    let comp = guard!("get_payload_compressor", md.get_payload_compressor());
    if matches!(comp, Ok(rpm::CompressionType::None)) {
        let n = guard!("files() iteration", {
            match p.files() {
                Ok(it) => {
                    let mut n = 0usize;
                    for f in it {
                        n += 1;
                        if f.is_err() {
                            break;
                        }
                    }
                    n
                }
                Err(_) => 0,
            }
        });
        info.files_iterated = Some(n);
        // a caller that keeps pulling after an error (`.flatten()`, `.filter_map(Result::ok)`)
        // must still see the iteration end: it can never yield more items than the header lists
        let listed = md.get_file_entries().map(|v| v.len()).unwrap_or(0);
        let pulled = guard!("files() iteration past errors", {
            match p.files() {
                Ok(it) => it.take(listed + 8).count(),
                Err(_) => 0,
            }
        });
        if pulled > listed {
            return Err(("iteration-does-not-end".to_string(), format!("files() yielded more than {} items for a header that lists {} files when the caller keeps pulling after an error", pulled - 1, listed)));
        }
    }
    info.pkg = Some(p);
    Ok(info)
}

/// stage B: the entry points that hand untrusted signature blobs to the `pgp` crate
pub fn sweep_pgp(p: &rpm::Package) -> Result<(), (String, String)> {
    for (i, v) in crate::gen::keys::keys().verifiers.iter().enumerate() {
        guard!(format!("verify_signature({})", crate::gen::keys::KEY_NAMES[i]), { let _ = p.verify_signature(v); });
    }
    guard!("signature_key_ids", { let _ = p.signature_key_ids(); });
    Ok(())
}

const MAX_SINGLE_BASE: usize = 16 << 20;
const MAX_SINGLE_PER_BYTE: usize = 64;
const MAX_TOTAL_BASE: usize = 256 << 20;
const MAX_TOTAL_PER_BYTE: usize = 4096;

pub fn judge(x: &[u8], o: &mut Outcome) {
    // ---- stage A: rpm's own code -----------------------------------------------------------
    crate::engine::stage::set("A:rpm");
    crate::engine::alloc::reset();
    BIGGEST.with(|b| *b.borrow_mut() = (0, String::new()));
    let r = sweep(x);
    let culprit = BIGGEST.with(|b| b.borrow().1.clone());
    let (max_req, total) = crate::engine::alloc::snapshot();
    let mut pkg = None;
    match r {
        Err((clause, detail)) => o.fail(&clause, detail),
        Ok(info) => {
            if info.past_lead {
                o.nontrivial_key(fnv1a(x));
            }
            o.label(if info.accepted { "accepted" } else { "rejected" });
            if info.meta_accepted && !info.accepted {
                o.label("metadata-only-accepted");
            }
            if let Some(n) = info.files_iterated {
                o.label("files-iterated");
                if n > 0 {
                    o.label("files-iterated-nonempty");
                }
            }
            if !info.accepted && info.past_lead {
                // where did it stop? (classification only)
                match fmt::decode(x) {
                    Err(_) => o.label("rejected-structure"),
                    Ok(_) => o.label("rejected-entry-data"),
                }
            }
            pkg = info.pkg;
        }
    }
    if max_req > MAX_SINGLE_BASE + MAX_SINGLE_PER_BYTE * x.len() {
        o.fail("alloc-single", format!("{}: single allocation request of {} bytes for an input of {} bytes", culprit, max_req, x.len()));
    }
    if total > MAX_TOTAL_BASE + MAX_TOTAL_PER_BYTE * x.len() {
        o.fail("alloc-total", format!("{} bytes requested in total for an input of {} bytes", total, x.len()));
    }
    // ---- stage B: signature blobs handed to the pgp crate ---------------------------------
    let Some(p) = pkg else { return };
    if o.failed() {
        return;
    }
    crate::engine::stage::set("B:pgp");
    crate::engine::alloc::reset();
    BIGGEST.with(|b| *b.borrow_mut() = (0, String::new()));
    let r = sweep_pgp(&p);
    let culprit = BIGGEST.with(|b| b.borrow().1.clone());
    let (max_req, total) = crate::engine::alloc::snapshot();
    if let Err((clause, detail)) = r {
        o.fail(&clause, detail);
    }
    if max_req > MAX_SINGLE_BASE + MAX_SINGLE_PER_BYTE * x.len() {
        o.fail("alloc-single-pgp", format!("{}: single allocation request of {} bytes inside the pgp crate's packet parser for an input of {} bytes", culprit, max_req, x.len()));
    }
    if total > MAX_TOTAL_BASE + MAX_TOTAL_PER_BYTE * x.len() {
        o.fail("alloc-total-pgp", format!("{} bytes requested in total for an input of {} bytes", total, x.len()));
    }
    crate::engine::stage::set("-");
}

fn hostile_field() -> BoxedStrategy<Option<String>> {
    prop_oneof![
        6 => Just(None),
        1 => proptest::sample::select(vec!["00000000", "00000001", "00001000", "00001001", "00001002", "ffffffff", "7fffffff", "zzzzzzzz", "0000000g", "fffffffe", "00010000"]).prop_map(|s| Some(s.to_string())),
    ]
    .boxed()
}

fn hostile_name() -> BoxedStrategy<Option<Vec<u8>>> {
    prop_oneof![
        6 => Just(None),
        3 => proptest::sample::select(vec!["étude.spec", "€/x", "🦀", "", ".", "..", "./", "/", "TRAILER!!!", "./TRAILER!!!", "a\0b", "\0", "./a", "./usr/b", "./usr/c", "a", "usr/b", "ß"]).prop_map(|s| Some(s.as_bytes().to_vec())),
        1 => proptest::collection::vec(any::<u8>(), 0..6).prop_map(Some),
        1 => any::<String>().prop_map(|s| Some(s.into_bytes())),
        1 => proptest::sample::select(vec![4094usize, 4095, 4096, 4097]).prop_map(|n| Some(vec![b'n'; n])),
    ]
    .boxed()
}

pub fn hostile_cpio() -> BoxedStrategy<C04Case> {
    let big = prop_oneof![Just(1u64 << 32), Just((1u64 << 32) + 4), Just((1u64 << 32) - 1), Just(1u64 << 31), Just(u64::MAX), Just(u64::MAX - 3), Just(5_000_000_000u64), Just(3u64 << 32), Just(0u64), 0u64..64];
    (filepkg::model_files(4, 24), any::<bool>(), proptest::collection::vec(((hostile_field(), hostile_field(), hostile_field(), hostile_name()), 0u8..12, any::<[bool; 3]>()), 0..6), prop::bool::weighted(0.8), prop_oneof![3 => Just(vec![]), 1 => proptest::collection::vec((0u8..4, big), 1..3)])
        .prop_map(|(files, long_sizes, perts, trailer, size_overrides)| {
            let mut archive: Vec<CpioSpec> = if long_sizes {
                files.iter().enumerate().filter(|(_, f)| !f.is_ghost()).map(|(i, f)| CpioSpec::stripped(i as u32, f.content.clone())).collect()
            } else {
                let mut a = filepkg::archive_for(&files);
                a.pop();
                a
            };
            if archive.is_empty() && !perts.is_empty() {
                archive.push(CpioSpec::newc("./ghost", 0o100644, 1, b"boo".to_vec()));
            }
            let n = archive.len();
            for (i, ((size_f, name_f, idx_f, new_name), magic, flags)) in perts.into_iter().enumerate() {
                if n == 0 {
                    break;
                }
                let e = &mut archive[i % n];
                if let Some(nm) = new_name {
                    e.name = nm;
                }
                e.size_field = size_f.or(e.size_field.take());
                e.namesize_field = name_f.or(e.namesize_field.take());
                if let Some(f) = idx_f {
                    e.index_field = Some(f);
                    e.magic = b"07070X".to_vec();
                }
                match magic {
                    0 => e.magic = b"070702".to_vec(),
                    1 => e.magic = b"07070X".to_vec(),
                    2 => e.magic = b"07070x".to_vec(),
                    3 => e.magic = b"\0\0\0\0\0\0".to_vec(),
                    _ => {}
                }
                if flags[0] && magic == 4 {
                    e.name_nul = false;
                }
                if flags[1] && magic == 5 {
                    e.pad_header = false;
                }
                if flags[2] && magic == 6 {
                    e.pad_data = false;
                }
            }
            if trailer {
                archive.push(CpioSpec::trailer());
            }
            C04Case::Cpio { files, archive, long_sizes, size_overrides }
        })
        .boxed()
}

impl Property for C04 {
    type Case = C04Case;
    const ID: &'static str = "C04";
    const ISOLATED: bool = true;

    fn new(_tier: Tier) -> Self {
        C04
    }
    fn rule(&self) -> String {
        "cases: complete boundary product of one injected index entry (header x type 0..10 x 8 offsets x 7 counts x 7 tags x terminated/unterminated store), boundary il/dl pairs, every truncation and every single-byte substitution {00,ff,^80,+1} in the metadata of small pool packages, structure-aware mutations of the pool, hostile hand-encoded headers, hostile cpio archives in compressor-less packages. Each case runs every public read-side entry point in a worker process under a panic hook and a counting allocator. Non-trivial = the input gets past the 4-byte lead magic; distinct by hash of the input bytes.".into()
    }
    fn assumptions(&self) -> Vec<String> {
        vec![
            format!("allocation rule: single request <= {} + {}*|input| bytes, total requested <= {} + {}*|input| bytes", MAX_SINGLE_BASE, MAX_SINGLE_PER_BYTE, MAX_TOTAL_BASE, MAX_TOTAL_PER_BYTE),
            "compressed-payload iteration is outside the statement and not exercised".into(),
            "rpm is compiled with overflow-checks and debug-assertions on, third-party crates in plain release mode".into(),
        ]
    }
    fn required_labels(&self, _t: Tier) -> Vec<&'static str> {
        vec!["accepted", "rejected-structure", "rejected-entry-data", "files-iterated-nonempty", "boundary", "intro", "truncated", "subst", "cpio", "constructed", "pool-mutated"]
    }
    fn phases(&self, tier: Tier) -> Vec<Phase<C04Case>> {
        let mut v: Vec<Phase<C04Case>> = vec![];
        let total_b = 2u64 * 11 * OFFSET_SELS as u64 * COUNT_SELS as u64 * 7 * 2;
        v.push(Phase::Enumerate {
            name: "boundary-product",
            total: total_b,
            exhaustive: true,
            gen: Arc::new(|mut i| {
                let mut take = |n: u64| {
                    let r = i % n;
                    i /= n;
                    r
                };
                let terminated = take(2) == 0;
                let tag_sel = take(7) as u8;
                let count_sel = take(COUNT_SELS as u64) as u8;
                let offset_sel = take(OFFSET_SELS as u64) as u8;
                let typ = take(11) as u32;
                let sig = take(2) == 0;
                Some(C04Case::Boundary { sig, typ, offset_sel, count_sel, tag_sel, terminated })
            }),
        });
        let nv = INTRO_VALS.len() as u64;
        v.push(Phase::Enumerate {
            name: "intro-product",
            total: 2 * nv * nv,
            exhaustive: true,
            gen: Arc::new(move |i| Some(C04Case::Intro { sig: i % 2 == 0, il_sel: ((i / 2) % nv) as u8, dl_sel: ((i / 2 / nv) % nv) as u8 })),
        });
        // every truncation of the small pool packages
        let small = small_pool_indices(tier.pick(33_000, 300_000) as usize);
        let mut trunc: Vec<(u16, u32)> = vec![];
        let mut subst: Vec<(u16, u32)> = vec![];
        for (k, &b) in small.iter().enumerate() {
            let item = &pool()[b as usize];
            let len = item.bytes.len();
            // beyond 32 KiB only sampled offsets
            let step = if len > 33_000 { len / 2000 } else { 1 };
            let mut at = 0;
            while at < len {
                trunc.push((b, at as u32));
                at += step;
            }
            let meta = fmt::decode(&item.bytes).map(|s| s.payload_start).unwrap_or(len.min(2048));
            if k % tier.pick(4, 1) as usize == 0 && meta < 20_000 {
                for at in 0..meta {
                    subst.push((b, at as u32));
                }
            }
        }
        let trunc = Arc::new(trunc);
        let subst = Arc::new(subst);
        let t2 = trunc.clone();
        v.push(Phase::Enumerate {
            name: "every-truncation",
            total: trunc.len() as u64,
            exhaustive: true,
            gen: Arc::new(move |i| t2.get(i as usize).map(|(b, at)| C04Case::Pkg(PkgCase::Truncated { base: *b, at: *at }))),
        });
        let s2 = subst.clone();
        v.push(Phase::Enumerate {
            name: "every-byte-substitution",
            total: subst.len() as u64 * 4,
            exhaustive: true,
            gen: Arc::new(move |i| s2.get((i / 4) as usize).map(|(b, at)| C04Case::Subst { base: *b, at: *at, how: (i % 4) as u8 })),
        });
        v.push(Phase::Random {
            name: "hostile-headers",
            cases: tier.pick(50_000, 600_000),
            strat: Arc::new(|| raw::raw_package(true).prop_map(|r| C04Case::Pkg(PkgCase::Raw(r))).boxed()),
        });
        v.push(Phase::Random {
            name: "hostile-headers-mutated",
            cases: tier.pick(15_000, 200_000),
            strat: Arc::new(|| {
                (raw::raw_package(false), proptest::collection::vec(crate::gen::mutate::mutation(), 1..4))
                    .prop_map(|(pkg, muts)| C04Case::Pkg(PkgCase::RawMutated { pkg, muts }))
                    .boxed()
            }),
        });
        v.push(Phase::Random {
            name: "pool-mutated",
            cases: tier.pick(40_000, 600_000),
            strat: Arc::new(|| mutated_pool(300_000, 4).prop_map(C04Case::Pkg).boxed()),
        });
        // long runs of archive entries of one kind: whatever the reader does per entry (skip,
        // recurse, buffer) is repeated tens of thousands of times (cases run on a 2 MiB stack)
        let counts: Vec<u32> = if tier == Tier::Thorough { vec![2_000, 30_000, 120_000] } else { vec![2_000, 30_000] };
        let nc = counts.len() as u64;
        v.push(Phase::Enumerate {
            name: "many-entries",
            total: nc * 7,
            exhaustive: false,
            gen: Arc::new(move |i| if i < nc * 7 { Some(C04Case::Many { count: counts[(i % nc) as usize], kind: (i / nc) as u8 }) } else { None }),
        });
        v.push(Phase::Random {
            name: "hostile-cpio",
            cases: tier.pick(30_000, 400_000),
            strat: Arc::new(hostile_cpio),
        });
        v
    }

    fn extra(&self, tier: Tier, seed: u64) -> ExtraResult<C04Case> {
        let mut r = ExtraResult::default();
        if tier != Tier::Thorough {
            return r;
        }
        let seeds: Vec<Vec<u8>> = pool().iter().filter(|p| p.bytes.len() < 40_000).map(|p| p.bytes.clone()).collect();
        let c = fuzz::run(&fuzz::Campaign { target: "fz_read", runs: 250_000, jobs: 8, max_len: 65536, seeds }, seed ^ 0xc04);
        r.fields = c.fields;
        r.inconclusive = c.inconclusive;
        r.cases = c.artifacts.into_iter().map(|b| C04Case::Pkg(PkgCase::Bytes(b))).collect();
        // a well-formed archive as seed for the cpio target (first byte selects 32/64-bit sizes)
        let mut arch = vec![0u8];
        arch.extend(crate::refimpl::cpio::write_archive(&[CpioSpec::newc("./a", 0o100644, 1, b"hello".to_vec()), CpioSpec::newc("./usr/b", 0o100644, 2, vec![]), CpioSpec::newc("./usr/c", 0o100644, 3, b"0123456789abcdef".to_vec()), CpioSpec::trailer()]));
        let mut stripped = vec![1u8];
        stripped.extend(crate::refimpl::cpio::write_archive(&[CpioSpec::stripped(0, b"hello".to_vec()), CpioSpec::stripped(2, b"0123456789abcdef".to_vec()), CpioSpec::trailer()]));
        let c2 = fuzz::run(&fuzz::Campaign { target: "fz_cpio", runs: 250_000, jobs: 8, max_len: 4096, seeds: vec![arch, stripped, vec![]] }, seed);
        r.fields.extend(c2.fields);
        if r.inconclusive.is_none() {
            r.inconclusive = c2.inconclusive;
        }
        for a in c2.artifacts {
            // rebuild the package the target built around the archive bytes
            use crate::gen::filepkg::{self, ModelFile};
            let mk = |dir: &str, base: &str, content: &[u8]| ModelFile { dir: dir.into(), base: base.into(), mode: 0o100644, mtime: 1, flags: 0, user: "root".into(), group: "root".into(), linkto: String::new(), content: content.to_vec() };
            let files = vec![mk("/", "a", b"hello"), mk("/usr/", "b", b""), mk("/usr/", "c", b"0123456789abcdef")];
            let long = a.first().map(|b| b & 1 == 1).unwrap_or(false);
            let mut main = filepkg::basic_entries("fz");
            main.extend(filepkg::file_entries(&files, long));
            let bytes = filepkg::wrap(main, a.get(1..).unwrap_or(&[]).to_vec(), true).encode();
            r.cases.push(C04Case::Pkg(PkgCase::Bytes(bytes)));
        }
        r
    }
    fn check(&self, case: &C04Case) -> Outcome {
        let mut o = Outcome::new();
        o.label(match case {
            C04Case::Pkg(p) => p.kind(),
            C04Case::Boundary { .. } => "boundary",
            C04Case::Intro { .. } => "intro",
            C04Case::Subst { .. } => "subst",
            C04Case::Cpio { .. } => "cpio",
            C04Case::Many { .. } => "many-entries",
        });
        let x = case.bytes();
        judge(&x, &mut o);
        o
    }
}

#[allow(dead_code)]
fn _unused(_: Val) {}
