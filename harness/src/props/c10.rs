//! C10 - after any signing history a package verifies with exactly the last signer's key.

use super::built::*;
use crate::engine::*;
use crate::gen::keys::{keys, KEY_NAMES};
use crate::gen::pool::pool;
use proptest::prelude::*;
use serde::{Deserialize, Serialize};
use std::sync::Arc;

pub struct C10 {
    /// pool indices of the starting packages
    starts: Vec<u16>,
}

#[derive(Serialize, Deserialize, Clone, Debug)]
pub struct C10Case {
    pub start: u16,
    pub ops: Vec<Op>,
    /// when non-zero: instead of `ops`, sign `sweep` times with key `sweep_key` at consecutive
    /// timestamps starting at `sweep_t0` (many distinct signature values: short MPIs etc.)
    #[serde(default)]
    pub sweep: u32,
    #[serde(default)]
    pub sweep_key: u8,
    #[serde(default)]
    pub sweep_t0: u32,
}

#[derive(Clone, Copy, Debug, PartialEq)]
enum Signer {
    None,
    Key(usize),
    /// signed by somebody else's key (foreign asset)
    Foreign,
    /// unknown: the start package's state is not modelled until the first sign/clear
    Unknown,
}

const OPS: [Op; 7] = [Op::Sign(0), Op::Sign(1), Op::Sign(2), Op::Sign(3), Op::Clear, Op::Reparse, Op::SignFail(0)];

/// i-th history (shortlex) over the 7 operations
fn history(mut i: u64, maxlen: u32) -> Option<Vec<Op>> {
    for len in 0..=maxlen {
        let n = 7u64.pow(len);
        if i < n {
            let mut v = vec![];
            for _ in 0..len {
                v.push(OPS[(i % 7) as usize].clone());
                i /= 7;
            }
            return Some(v);
        }
        i -= n;
    }
    None
}

fn count_histories(maxlen: u32) -> u64 {
    (0..=maxlen).map(|l| 7u64.pow(l)).sum()
}

impl Property for C10 {
    type Case = C10Case;
    const ID: &'static str = "C10";
    fn new(_t: Tier) -> Self {
        let want = ["built-none-nofiles", "built-gzip-files", "rpm-empty-0-0.x86_64.rpm", "ima_signed.rpm", "rpm-sign-4.15.1-1.fc31.x86_64.rpm", "signed-ed25519-file"];
        let starts = want.iter().filter_map(|w| pool().iter().position(|p| p.name == *w).map(|i| i as u16)).collect();
        C10 { starts }
    }
    fn rule(&self) -> String {
        format!("operation histories over {{sign with rsa4096, passphrase-protected rsa3072, ed25519, ecdsa-p256; clear; write+re-parse}} from {} starting packages (built without files, built with files, three rpmbuild-made assets incl. foreign-signed ones, one library-signed): ALL histories of length <= 3 (quick) / <= 4 (thorough) plus random histories of length 4..8, plus a sweep that signs each start package at thousands of consecutive timestamps (distinct signature values) and verifies each; plus signing with two keys generated at run time whose 64-bit key ids start with a zero hex digit / a zero byte; the oracle (a model of the signing state) is evaluated after every step. Non-trivial = the history contains a sign that is later followed by a different sign or a clear; distinct by construction (enumerated) / by hash (random).", self.starts.len())
    }
    fn assumptions(&self) -> Vec<String> {
        vec![
            "expected key ids are derived from the secret key files with the pgp crate, not from the library under test".into(),
            "for foreign-signed starting packages nothing is asserted about key ids before the first sign/clear, only that none of the four test keys verifies".into(),
        ]
    }
    fn required_labels(&self, _t: Tier) -> Vec<&'static str> {
        vec!["generated-key", "signature-sweep", "resigned-with-other-key", "sign-then-clear", "foreign-start", "signer-rsa4096", "signer-rsa3072_protected", "signer-ed25519", "signer-ecdsa_p256"]
    }
    fn phases(&self, tier: Tier) -> Vec<Phase<C10Case>> {
        let maxlen = tier.pick(3, 4) as u32;
        let per = count_histories(maxlen);
        let starts = Arc::new(self.starts.clone());
        let s2 = starts.clone();
        let ns = starts.len() as u64;
        vec![
            Phase::Enumerate {
                name: "all-short-histories",
                total: per * ns,
                exhaustive: true,
                gen: Arc::new(move |i| history(i / ns, maxlen).map(|ops| C10Case { start: s2[(i % ns) as usize], ops, sweep: 0, sweep_key: 0, sweep_t0: 0 })),
            },
            Phase::Random {
                name: "long-histories",
                cases: tier.pick(300, 10_000),
                strat: Arc::new(move || {
                    let st = starts.as_ref().clone();
                    (proptest::sample::select(st), proptest::collection::vec(prop_oneof![6 => op_cheap(), 1 => Just(Op::Sign(1)), 2 => proptest::sample::select(vec![0u8, 2, 3]).prop_map(Op::SignNow), 2 => (0u8..3).prop_map(Op::SignFail)], 4..9)).prop_map(|(start, ops)| C10Case { start, ops, sweep: 0, sweep_key: 0, sweep_t0: 0 }).boxed()
                }),
            },
            Phase::Enumerate {
                name: "generated-keys",
                total: 8,
                exhaustive: false,
                gen: {
                    let st = self.starts.clone();
                    Arc::new(move |i| if i < 8 { Some(C10Case { start: st[(i as usize / 2) % st.len()], ops: vec![], sweep: 4, sweep_key: 100 + (i % 2) as u8, sweep_t0: 1_600_000_000 + i as u32 }) } else { None })
                },
            },
            Phase::Enumerate {
                name: "signature-value-sweep",
                total: tier.pick(64, 2_000),
                exhaustive: false,
                gen: {
                    let st = self.starts.clone();
                    Arc::new(move |i| {
                        // blocks of consecutive timestamps; the cheap keys get many more signatures
                        let key = [2u8, 3, 2, 3, 2, 3, 0, 2][(i % 8) as usize];
                        let n = if key == 0 { 24 } else { 150 };
                        // the first blocks sit on the boundaries of the 32-bit timestamp range
                        let t0 = match i {
                            0..=7 => 0,
                            8..=15 => (1u32 << 31) - 12,
                            16..=23 => u32::MAX - n + 1,
                            _ => 1_500_000_000 + (i as u32) * 1000,
                        };
                        Some(C10Case { start: st[(i as usize / 8) % st.len()], ops: vec![], sweep: n, sweep_key: key, sweep_t0: t0 })
                    })
                },
            },
        ]
    }
    fn check(&self, case: &C10Case) -> Outcome {
        let mut o = Outcome::new();
        if let Err((c, d)) = inner(case, &mut o) {
            o.fail(&c, d);
        }
        o
    }
}

fn header_bytes(p: &rpm::Package) -> Result<Vec<u8>, (String, String)> {
    // the main header as serialised inside the whole package
    let w = write_pkg(p)?;
    let seg = crate::refimpl::fmt::decode(&w).map_err(|e| ("unsegmentable".to_string(), e))?;
    Ok(w[seg.hdr.start..seg.hdr.end].to_vec())
}

/// sign with a key generated for the shape of its key id (leading zero digit / zero byte)
fn generated_key_sweep(case: &C10Case, o: &mut Outcome) -> Result<(), (String, String)> {
    let gen = crate::gen::keys::generated_keys();
    if gen.is_empty() {
        o.label("no-generated-keys");
        return Ok(());
    }
    let g = &gen[(case.sweep_key - 100) as usize % gen.len()];
    o.label("generated-key");
    o.label(g.what);
    let item = &pool()[case.start as usize % pool().len()];
    let mut pkg = parse_pkg(&item.bytes)?;
    let ks = keys();
    o.evals = case.sweep as u64;
    o.nontrivial = case.sweep as u64;
    for i in 0..case.sweep {
        let t = case.sweep_t0.saturating_add(i);
        let r = panics::catch(|| -> Result<(), String> {
            pkg.sign_with_timestamp(g.signer.clone(), t).map_err(|e| format!("sign failed: {e}"))?;
            if i % 2 == 1 {
                let mut w = Vec::new();
                pkg.write(&mut w).map_err(|e| e.to_string())?;
                pkg = rpm::Package::parse(&mut &w[..]).map_err(|e| e.to_string())?;
            }
            if let Err(e) = pkg.verify_signature(&g.verifier) {
                return Err(format!("signed by the key with id {} ({}): its own key does not verify: {e}", g.key_id, g.what));
            }
            for v in 0..4 {
                if pkg.verify_signature(&ks.verifiers[v]).is_ok() {
                    return Err(format!("signed by the key with id {}: verification with the {} key is Ok", g.key_id, KEY_NAMES[v]));
                }
            }
            match pkg.signature_key_ids() {
                Ok(ids) if ids.len() == 1 && ids[0].to_lowercase() == g.key_id => Ok(()),
                other => Err(format!("signed by the key with id {:?} ({}): signature_key_ids() = {:?}", g.key_id, g.what, other.map_err(|e| e.to_string()))),
            }
        });
        match r {
            Ok(Ok(())) => {}
            Ok(Err(d)) => return Err((if d.contains("signature_key_ids") { "key-id" } else { "does-not-verify" }.into(), d)),
            Err(p) => return Err(("panic".into(), p)),
        }
    }
    Ok(())
}

fn sweep(case: &C10Case, o: &mut Outcome) -> Result<(), (String, String)> {
    if case.sweep_key >= 100 {
        return generated_key_sweep(case, o);
    }
    o.label("signature-sweep");
    let item = &pool()[case.start as usize % pool().len()];
    let mut pkg = parse_pkg(&item.bytes)?;
    let ks = keys();
    let k = case.sweep_key as usize % 4;
    o.evals = case.sweep as u64;
    o.nontrivial = case.sweep as u64;
    for i in 0..case.sweep {
        let t = case.sweep_t0.saturating_add(i);
        let r = panics::catch(|| -> Result<(), String> {
            pkg.sign_with_timestamp(ks.signers[k].clone(), t).map_err(|e| format!("sign failed: {e}"))?;
            for v in 0..4 {
                let ok = pkg.verify_signature(&ks.verifiers[v]).is_ok();
                if ok != (v == k) {
                    return Err(format!("signed by {} at timestamp {t}: verification with the {} key is {}", KEY_NAMES[k], KEY_NAMES[v], if ok { "Ok" } else { "Err" }));
                }
            }
            match pkg.signature_key_ids() {
                Ok(ids) if ids.len() == 1 && ids[0].to_lowercase() == ks.key_ids[k] => Ok(()),
                other => Err(format!("signed by {} at timestamp {t}: signature_key_ids() = {:?}", KEY_NAMES[k], other.map_err(|e| e.to_string()))),
            }
        });
        match r {
            Ok(Ok(())) => {}
            Ok(Err(d)) => return Err(("does-not-verify".into(), d)),
            Err(p) => return Err(("panic".into(), p)),
        }
    }
    Ok(())
}

fn inner(case: &C10Case, o: &mut Outcome) -> Result<(), (String, String)> {
    if case.sweep > 0 {
        return sweep(case, o);
    }
    let item = &pool()[case.start as usize % pool().len()];
    let mut pkg = parse_pkg(&item.bytes)?;
    let start_header = header_bytes(&pkg)?;
    let start_content = pkg.content.clone();
    let mut model = match item.signed_by {
        Some(k) => Signer::Key(k),
        None if item.asset => {
            o.label("foreign-start");
            Signer::Unknown
        }
        None => Signer::None,
    };
    // non-triviality: a sign later followed by a different sign or a clear
    let mut last_sign: Option<u8> = None;
    let mut nontrivial = false;
    for op in &case.ops {
        match op {
            Op::Sign(k) | Op::SignNow(k) => {
                if last_sign.is_some() && last_sign != Some(*k) {
                    nontrivial = true;
                    o.label("resigned-with-other-key");
                }
                last_sign = Some(*k);
                o.label(format!("signer-{}", KEY_NAMES[*k as usize % 4]));
            }
            Op::Clear => {
                if last_sign.is_some() {
                    nontrivial = true;
                    o.label("sign-then-clear");
                }
            }
            _ => {}
        }
    }
    if nontrivial {
        o.nontrivial_key(fnv1a(serde_json::to_string(case).unwrap_or_default().as_bytes()));
    }
    check_state(&pkg, model, &start_header, &start_content, "start")?;
    for (i, op) in case.ops.iter().enumerate() {
        // a signer that returns bytes which are no signature: the model has no opinion
        if matches!(op, Op::SignFail(k) if k % 4 == 3) {
            continue;
        }
        apply_op(&mut pkg, op)?;
        model = match op {
            Op::Sign(k) | Op::SignNow(k) => Signer::Key(*k as usize % 4),
            Op::Clear | Op::ClearSigInPlace | Op::EmptySig => Signer::None,
            Op::Reparse | Op::SignFail(_) => model,
        };
        check_state(&pkg, model, &start_header, &start_content, &format!("after step {i} ({op:?}) of {:?}", case.ops))?;
    }
    Ok(())
}

fn check_state(pkg: &rpm::Package, model: Signer, start_header: &[u8], start_content: &[u8], stage: &str) -> Result<(), (String, String)> {
    let ks = keys();
    let r = panics::catch(|| -> Result<(), (String, String)> {
        for k in 0..4 {
            let ok = pkg.verify_signature(&ks.verifiers[k]).is_ok();
            let want = match model {
                Signer::Key(s) => Some(s == k),
                Signer::None | Signer::Foreign | Signer::Unknown => Some(false),
            };
            if let Some(w) = want {
                if ok != w {
                    return Err((if ok { "verifies-with-wrong-key" } else { "does-not-verify" }.to_string(), format!("{stage}: verification with the {} key is {}, expected {} (model: {:?})", KEY_NAMES[k], if ok { "Ok" } else { "Err" }, if w { "Ok" } else { "Err" }, model)));
                }
            }
        }
        let ids = pkg.signature_key_ids();
        match model {
            Signer::Key(s) => {
                let want = vec![ks.key_ids[s].clone()];
                match &ids {
                    Ok(v) if v.iter().map(|x| x.to_lowercase()).collect::<Vec<_>>() == want => {}
                    other => return Err(("key-id".into(), format!("{stage}: signature_key_ids() = {:?}, expected exactly {:?} ({})", other.as_ref().map_err(|e| e.to_string()), want, KEY_NAMES[s]))),
                }
            }
            Signer::None => {
                if let Ok(v) = &ids {
                    return Err(("key-id".into(), format!("{stage}: no signature present but signature_key_ids() = {:?}", v)));
                }
            }
            _ => {}
        }
        if let Err(e) = pkg.verify_digests() {
            return Err(("digests".into(), format!("{stage}: verify_digests fails: {e}")));
        }
        Ok(())
    });
    match r {
        Ok(x) => x?,
        Err(p) => return Err(("panic".into(), format!("{stage}: {p}"))),
    }
    if header_bytes(pkg)? != start_header {
        return Err(("header-changed".into(), format!("{stage}: the main header is no longer byte-identical to the starting package")));
    }
    if pkg.content != start_content {
        return Err(("payload-changed".into(), format!("{stage}: the payload is no longer byte-identical to the starting package")));
    }
    Ok(())
}
