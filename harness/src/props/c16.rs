//! C16 - reported segment offsets are the real byte boundaries of the written package.

use super::built::{apply_op, op_cheap, Op};
use super::common::*;
use serde::{Deserialize, Serialize};
use crate::engine::*;
use crate::gen::pool::pool;
use crate::gen::raw;
use crate::refimpl::fmt;
use proptest::prelude::*;
use std::sync::Arc;

pub struct C16;

#[derive(Serialize, Deserialize, Clone, Debug)]
pub enum C16Case {
    Pkg(PkgCase),
    /// a package straight from the builder (value queried before any write/parse); `empty_prog`
    /// gives the first scriptlet an explicitly empty interpreter list
    Built { cfg: crate::gen::builder::BuilderConfig, empty_prog: bool },
    /// offsets are queried on the SAME package value before and after every operation
    History { base: u16, ops: Vec<Op> },
}

impl Property for C16 {
    type Case = C16Case;
    const ID: &'static str = "C16";

    fn new(_tier: Tier) -> Self {
        C16
    }
    fn rule(&self) -> String {
        "cases: hand-encoded packages with any entry count and store size (all signature-header sizes mod 8), the package pool, and mutations of both; plus sign/clear/re-parse histories on pool packages with the offsets queried on the same package value before and after every step. Non-trivial = accepted by Package::parse; distinct by (il_sig, dl_sig, il_hdr, dl_hdr, payload length).".into()
    }
    fn assumptions(&self) -> Vec<String> {
        vec!["segment boundaries are recomputed from the written bytes by the reference decoder".into()]
    }
    fn required_labels(&self, _t: Tier) -> Vec<&'static str> {
        vec!["accepted", "built", "empty-interpreter-list", "history", "pad-0", "pad-1", "pad-2", "pad-3", "pad-4", "pad-5", "pad-6", "pad-7", "il-0", "il-many"]
    }
    fn phases(&self, tier: Tier) -> Vec<Phase<C16Case>> {
        vec![
            Phase::Enumerate {
                name: "pool",
                total: pool().len() as u64,
                gen: Arc::new(|i| Some(C16Case::Pkg(PkgCase::Pool(i as u16)))),
                exhaustive: false,
            },
            Phase::Random {
                name: "constructed",
                cases: tier.pick(250_000, 5_000_000),
                strat: Arc::new(|| raw::raw_package(false).prop_map(|r| C16Case::Pkg(PkgCase::Raw(r))).boxed()),
            },
            Phase::Random {
                name: "pool-mutated",
                cases: tier.pick(80_000, 2_000_000),
                strat: Arc::new(|| mutated_pool(40_000, 2).prop_map(C16Case::Pkg).boxed()),
            },
            Phase::Random {
                name: "built",
                cases: tier.pick(5_000, 50_000),
                strat: Arc::new(|| {
                    use crate::gen::builder::*;
                    (config_any_reuse(CfgParams { max_files: 4, sizes: size_small(), comp: comp_fast(), sign_prob: 0.3, file_kinds: true, force_large_prob: 0.1, rich_meta: true }), any::<bool>())
                        .prop_map(|(mut cfg, empty_prog)| {
                            if cfg.signer == Some(1) {
                                cfg.signer = Some(0);
                            }
                            C16Case::Built { cfg, empty_prog }
                        })
                        .boxed()
                }),
            },
            Phase::Random {
                name: "sign-clear-histories",
                cases: tier.pick(5_000, 100_000),
                strat: Arc::new(|| (proptest::sample::select(small_pool_indices(30_000)), proptest::collection::vec(prop_oneof![8 => op_cheap(), 1 => Just(Op::ClearSigInPlace), 1 => Just(Op::EmptySig)], 1..5)).prop_map(|(base, ops)| C16Case::History { base, ops }).boxed()),
            },
        ]
    }

    fn check(&self, case: &C16Case) -> Outcome {
        let mut o = Outcome::new();
        match case {
            C16Case::Pkg(pc) => {
                let x = pc.bytes();
                o.label(pc.kind());
                let p = match panics::catch(|| super::common::with_source(&x, fnv1a(&x) >> 9, |mut r| rpm::Package::parse(&mut r))) {
                    Ok(Ok(p)) => p,
                    Ok(Err(_)) => {
                        o.label("rejected");
                        return o;
                    }
                    Err(_) => {
                        o.label("crashed");
                        return o;
                    }
                };
                o.label("accepted");
                check_offsets(&p, &mut o, "after parse");
            }
            C16Case::Built { cfg, empty_prog } => {
                o.label("built");
                let mut cfg = cfg.clone();
                if *empty_prog {
                    if let Some(sc) = cfg.scriptlets.first_mut() {
                        sc.prog = Some(vec![]);
                        o.label("empty-interpreter-list");
                    }
                }
                match super::built::build_and_write(&cfg) {
                    Ok(b) => {
                        check_offsets(&b.pkg, &mut o, "built value");
                        if let Ok(p) = rpm::Package::parse(&mut &b.bytes[..]) {
                            check_offsets(&p, &mut o, "built, written and parsed");
                        }
                    }
                    Err(_) => o.label("build-failed"),
                }
            }
            C16Case::History { base, ops } => {
                o.label("history");
                let x = &pool()[*base as usize % pool().len()].bytes;
                let Ok(mut p) = rpm::Package::parse(&mut &x[..]) else { return o };
                check_offsets(&p, &mut o, "start");
                for (i, op) in ops.iter().enumerate() {
                    if o.failed() {
                        break;
                    }
                    if let Err((c, d)) = apply_op(&mut p, op) {
                        // failing operations are C10's business
                        o.label(format!("op-failed-{c}"));
                        let _ = d;
                        break;
                    }
                    check_offsets(&p, &mut o, &format!("after step {i} ({op:?}) of {ops:?}"));
                }
            }
        }
        o
    }
}

fn check_offsets(p: &rpm::Package, o: &mut Outcome, stage: &str) {
    let r = panics::catch(|| {
        let mut w = Vec::new();
        p.write(&mut w).map(|_| (w, p.metadata.get_package_segment_offsets()))
    });
    // the same bytes must come out of a sink that takes three bytes at a time
    struct Trickle(Vec<u8>);
    impl std::io::Write for Trickle {
        fn write(&mut self, b: &[u8]) -> std::io::Result<usize> {
            let n = b.len().min(3);
            self.0.extend_from_slice(&b[..n]);
            Ok(n)
        }
        fn flush(&mut self) -> std::io::Result<()> {
            Ok(())
        }
    }
    let mut t = Trickle(vec![]);
    let tr = panics::catch(|| p.write(&mut t));
    // ... and out of write_file, whatever already lies at and next to the destination (an older,
    // larger file of the same name; left-overs of interrupted writes)
    if let Ok(Ok(v)) = &r {
        if fnv1a(&v.0) % 16 == 0 {
            o.label("write-file-next-to-leftovers");
            let dir = crate::gen::builder::TempDir::new("c16");
            let dest = dir.0.join("out.rpm");
            let junk = vec![0xaau8; v.0.len() + 4096];
            for n in ["out.rpm", "out.rpm.tmp", "out.tmp", ".out.rpm.tmp", "out.rpm.part", "out.rpm~", "out.rpm.new"] {
                let _ = std::fs::write(dir.0.join(n), &junk);
            }
            match panics::catch(|| p.write_file(&dest)) {
                Ok(Ok(())) => {
                    let got = std::fs::read(&dest).unwrap_or_default();
                    if got != v.0 {
                        o.fail("bytes-depend-on-sink", format!("{stage}: write_file next to left-over files produced {} bytes, write() gives {} ({})", got.len(), v.0.len(), super::common::first_diff(&got, &v.0)));
                    }
                }
                Ok(Err(e)) => o.fail("write-error", format!("{stage}: write_file: {e}")),
                Err(pn) => o.fail("offsets-panic", format!("{stage}: write_file: {pn}")),
            }
        }
    }
    let (w, off) = match r {
        Ok(Ok(v)) => {
            if !matches!(tr, Ok(Ok(()))) || t.0 != v.0 {
                o.fail("bytes-depend-on-sink", format!("{stage}: writing through a sink that accepts 3 bytes per call gives {} bytes, a Vec gives {} ({})", t.0.len(), v.0.len(), super::common::first_diff(&t.0, &v.0)));
            }
            v
        }
        Ok(Err(e)) => {
            o.fail("write-error", e.to_string());
            return;
        }
        Err(pn) => {
            o.fail("offsets-panic", pn);
            return;
        }
    };
    let seg = match fmt::decode(&w) {
        Ok(s) => s,
        Err(e) => {
            o.fail("written-unsegmentable", e);
            return;
        }
    };
    o.label(format!("pad-{}", fmt::sig_padding(seg.sig.dl)));
    o.label(match seg.sig.il {
        0 => "il-0",
        1..=3 => "il-few",
        _ => "il-many",
    });
    o.nontrivial_key(fnv1a(format!("{}/{}/{}/{}/{}", seg.sig.il, seg.sig.dl, seg.hdr.il, seg.hdr.dl, w.len() - seg.payload_start).as_bytes()));
    if off.lead != 0 {
        o.fail("lead-offset", format!("{stage}: lead offset {} != 0", off.lead));
    }
    if off.signature_header != seg.sig.start as u64 {
        o.fail("sig-offset", format!("{stage}: reported {} but signature header starts at {}", off.signature_header, seg.sig.start));
    }
    if off.header != seg.hdr.start as u64 {
        o.fail("header-offset", format!("{stage}: reported {} but main header starts at {}", off.header, seg.hdr.start));
    }
    if off.payload != seg.payload_start as u64 {
        o.fail("payload-offset", format!("{stage}: reported {} but payload starts at {}", off.payload, seg.payload_start));
    }
    if !(off.lead < off.signature_header && off.signature_header < off.header && off.header < off.payload) {
        o.fail("not-increasing", format!("{stage}: {:?}", off));
    }
    for (name, at) in [("signature", off.signature_header), ("header", off.header)] {
        let at = at as usize;
        if w.get(at..at + 3) != Some(&fmt::HDR_MAGIC[..]) {
            o.fail("no-intro-at-offset", format!("{stage}: no header magic at the reported {name} offset {at}"));
        }
    }
    if (w.len() as u64).checked_sub(off.payload) != Some(p.content.len() as u64) {
        o.fail("payload-length", format!("{stage}: len {} - payload offset {} != content length {}", w.len(), off.payload, p.content.len()));
    }
}
