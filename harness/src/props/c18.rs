//! C18 - file modes convert without losing or inventing bits (complete enumeration).

use crate::engine::*;
use rpm::FileMode;
use serde::{Deserialize, Serialize};
use std::sync::Arc;

pub struct C18;

#[derive(Serialize, Deserialize, Clone, Debug)]
pub enum C18Case {
    /// all 16-bit words lo..=hi through From<u16> and the constructors
    Words { lo: u32, hi: u32 },
    /// all i32 values lo..=hi (as i64 bounds) through From<i32> / try_from_raw
    Ints { lo: i64, hi: i64, step: i64 },
}

fn check_word(w: u16) -> Result<(), String> {
    let m = FileMode::from(w);
    if m.raw_mode() != w {
        return Err(format!("From<u16>({w:#o}).raw_mode() = {:#o}", m.raw_mode()));
    }
    if m.file_type() | m.permissions() != w {
        return Err(format!("{w:#o}: file_type {:#o} | permissions {:#o} != word", m.file_type(), m.permissions()));
    }
    if m.file_type() != w & 0o170000 || m.permissions() != w & 0o7777 {
        return Err(format!("{w:#o}: file_type {:#o} / permissions {:#o}", m.file_type(), m.permissions()));
    }
    let want_kind = match w & 0o170000 {
        0o040000 => 0,
        0o100000 => 1,
        0o120000 => 2,
        _ => 3,
    };
    let kind = match m {
        FileMode::Dir { .. } => 0,
        FileMode::Regular { .. } => 1,
        FileMode::SymbolicLink { .. } => 2,
        FileMode::Invalid { .. } => 3,
        _ => 4,
    };
    if kind != want_kind {
        return Err(format!("{w:#o} classified as variant {kind}, type bits say {want_kind}"));
    }
    if u16::from(m) != w || u32::from(m) != w as u32 {
        return Err(format!("{w:#o}: u16::from = {:#o}, u32::from = {:#o}", u16::from(m), u32::from(m)));
    }
    // constructors mask to 12 bits
    for (name, c, ty) in [("regular", FileMode::regular(w), 0o100000u16), ("dir", FileMode::dir(w), 0o040000), ("symbolic_link", FileMode::symbolic_link(w), 0o120000)] {
        if c.permissions() != w & 0o7777 || c.raw_mode() != ty | (w & 0o7777) || c.file_type() != ty {
            return Err(format!("FileMode::{name}({w:#o}) = {c:?}"));
        }
    }
    Ok(())
}

fn check_int(v: i32) -> Result<(), String> {
    let m = FileMode::from(v);
    let t = FileMode::try_from_raw(v);
    let is_invalid = matches!(m, FileMode::Invalid { .. });
    match (&t, is_invalid) {
        (Ok(x), false) if *x == m => {}
        (Err(_), true) => {}
        _ => return Err(format!("try_from_raw({v}) = {:?} but From<i32> = {m:?}", t.as_ref().map_err(|e| e.to_string()))),
    }
    if (0..=65535).contains(&v) {
        if m != FileMode::from(v as u16) {
            return Err(format!("From<i32>({v}) = {m:?} != From<u16> = {:?}", FileMode::from(v as u16)));
        }
    } else if v > 65535 || v < -32768 {
        if !is_invalid {
            return Err(format!("{v} is outside the 16-bit range but converts to {m:?}"));
        }
    } else {
        // -32768..=-1: either reported invalid or read as the 16-bit pattern (statement is silent)
        if !is_invalid && m != FileMode::from(v as u16) {
            return Err(format!("From<i32>({v}) = {m:?}: neither invalid nor the 16-bit pattern"));
        }
        // whichever reading of "the 16-bit range" the library takes (0..=65535, or that plus the
        // signed half), the negatives it accepts are none or all of -32768..=-1
        // (judged on the values whose 16-bit pattern is a valid mode word, so that "invalid
        // because out of range" is not confused with "invalid because of unknown type bits")
        let pat = FileMode::from(v as u16);
        if !matches!(pat, FileMode::Invalid { .. }) {
            let ref_as_pattern = FileMode::from(-24576i32) == FileMode::from(0o120000u16);
            if (m == pat) != ref_as_pattern {
                return Err(format!("From<i32>({v}) = {m:?} but From<i32>(-24576) = {:?}: the signed 16-bit half is neither wholly in range nor wholly out of range", FileMode::from(-24576i32)));
            }
        }
        // when the value is read as the 16-bit word (raw_mode() reports that word), its type and
        // permission parts have to recombine to it like for any other word
        let w = v as u16;
        if m.raw_mode() == w && (m.file_type() != w & 0o170000 || m.permissions() != w & 0o7777) {
            return Err(format!("From<i32>({v}) reports the word {w:#o} but file_type {:#o} / permissions {:#o} do not recombine to it", m.file_type(), m.permissions()));
        }
    }
    Ok(())
}

impl Property for C18 {
    type Case = C18Case;
    const ID: &'static str = "C18";

    fn new(_t: Tier) -> Self {
        C18
    }
    fn rule(&self) -> String {
        "complete enumeration of all 65 536 words through From<u16>, raw_mode, file_type, permissions, u16/u32::from and the three constructors; i32 domain: all values in [-70000, 140000] and a stride-257 sweep of the whole i32 range plus boundaries (quick) / all 2^32 values (thorough). Every value is a distinct non-trivial case.".into()
    }
    fn assumptions(&self) -> Vec<String> {
        vec!["for negative i32 in -32768..=-1 either 'invalid' or the 16-bit pattern is accepted (the statement does not say whether the signed half is in range), but the same answer for all of them".into()]
    }
    fn required_labels(&self, _t: Tier) -> Vec<&'static str> {
        vec!["words", "ints"]
    }
    fn phases(&self, tier: Tier) -> Vec<Phase<C18Case>> {
        let mut v = vec![Phase::Enumerate {
            name: "all-u16-words",
            total: 16,
            exhaustive: true,
            gen: Arc::new(|i| Some(C18Case::Words { lo: (i * 4096) as u32, hi: (i * 4096 + 4095) as u32 })),
        }];
        v.push(Phase::Enumerate {
            name: "i32-window",
            total: 21,
            exhaustive: true,
            gen: Arc::new(|i| Some(C18Case::Ints { lo: -70_000 + i as i64 * 10_000, hi: -70_000 + i as i64 * 10_000 + 9_999 + i64::from(i == 20), step: 1 })),
        });
        if tier == Tier::Quick {
            v.push(Phase::Enumerate {
                name: "i32-stride-257",
                total: 256,
                exhaustive: false,
                gen: Arc::new(|i| {
                    let lo = i32::MIN as i64 + i as i64 * (1 << 24);
                    Some(C18Case::Ints { lo, hi: lo + (1 << 24) - 1, step: 257 })
                }),
            });
            v.push(Phase::Enumerate {
                name: "i32-boundaries",
                total: 4,
                exhaustive: false,
                gen: Arc::new(|i| {
                    let c = [i32::MIN as i64 + 2000, i32::MAX as i64 - 2000, -32768, 65536][i as usize];
                    Some(C18Case::Ints { lo: c - 2000, hi: c + 2000, step: 1 })
                }),
            });
        } else {
            v.push(Phase::Enumerate {
                name: "all-i32",
                total: 4096,
                exhaustive: true,
                gen: Arc::new(|i| {
                    let lo = i32::MIN as i64 + i as i64 * (1 << 20);
                    Some(C18Case::Ints { lo, hi: lo + (1 << 20) - 1, step: 1 })
                }),
            });
        }
        v
    }
    fn check(&self, case: &C18Case) -> Outcome {
        let mut o = Outcome::new();
        let r = panics::catch(|| -> Result<u64, String> {
            let mut n = 0u64;
            match case {
                C18Case::Words { lo, hi } => {
                    for w in *lo..=*hi {
                        check_word(w as u16)?;
                        n += 1;
                    }
                }
                C18Case::Ints { lo, hi, step } => {
                    let mut v = *lo;
                    while v <= *hi {
                        if v >= i32::MIN as i64 && v <= i32::MAX as i64 {
                            check_int(v as i32)?;
                            n += 1;
                        }
                        v += *step;
                    }
                }
            }
            Ok(n)
        });
        o.label(match case {
            C18Case::Words { .. } => "words",
            C18Case::Ints { .. } => "ints",
        });
        match r {
            Ok(Ok(n)) => {
                o.evals = n;
                o.nontrivial = n;
            }
            Ok(Err(d)) => o.fail("mode-conversion", d),
            Err(p) => o.fail("panic", p),
        }
        o
    }
}
