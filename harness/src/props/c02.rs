//! C02 - signature verification never succeeds without a verified signature.

use crate::engine::*;
use crate::gen::builder::*;
use crate::gen::filepkg;
use crate::gen::keys::keys;
use crate::refimpl::digests;
use crate::refimpl::fmt::{self, HexBytes, Val};
use crate::refimpl::tags;
use base64::Engine;
use proptest::prelude::*;
use serde::{Deserialize, Serialize};
use std::cell::RefCell;
use std::sync::Arc;

pub struct C02 {
    /// signed base packages for domain B: (name, bytes, key index)
    bases: Vec<(String, Vec<u8>, usize)>,
}

/// how one signature-carrying tag is filled
#[derive(Serialize, Deserialize, Clone, Debug, PartialEq)]
pub enum SigVal {
    /// OPENPGP: string array (or i18n array when `i18n`) of entries
    Array { items: Vec<ArrItem>, i18n: bool },
    /// legacy tags: binary blob
    Bin(#[serde(with = "crate::engine::hexser")] Vec<u8>),
    /// a deliberately wrong data type
    WrongStr(String),
    WrongInt(u32),
    WrongBinForArray(#[serde(with = "crate::engine::hexser")] Vec<u8>),
}

#[derive(Serialize, Deserialize, Clone, Debug, PartialEq)]
pub enum ArrItem {
    /// valid base64 of this blob
    Blob(#[serde(with = "crate::engine::hexser")] Vec<u8>),
    Malformed(String),
    Empty,
}

#[derive(Serialize, Deserialize, Clone, Debug)]
pub enum C02Case {
    Recording {
        #[serde(with = "crate::engine::hexser")]
        payload: Vec<u8>,
        openpgp: Option<SigVal>,
        rsa: Option<SigVal>,
        dsa: Option<SigVal>,
        pgp: Option<SigVal>,
        /// false = the SHA256 header digest is recorded wrongly
        digests_ok: bool,
        payload_digest: Option<bool>,
        /// answers of the verifier by call index (true = accept); calls beyond the script are rejected
        answers: Vec<bool>,
        /// which error a rejecting call returns (by call index; 0 NoSignatureFound,
        /// 1 KeyNotFoundError, 2 DigestMismatchError, 3 Io, 4 UnsupportedPGPKeyType-like Nom)
        #[serde(default)]
        reject_kinds: Vec<u8>,
        /// sort keys permuting the index records of the signature header (empty = ascending tags)
        #[serde(default)]
        order: Vec<u16>,
        /// further unsigned digests in the signature header: bit 0 MD5 present, bit 1 SHA1
        /// present, bit 2 MD5 recorded wrongly, bit 3 SHA1 recorded wrongly, bits 4-5 how wrong digests
        /// are wrong (0 other digest, 1 strict prefix of the true one, 2 true one plus extra bytes),
        /// bits 6-7 an unsigned size entry (1 SIZE / 2 LONGSIZE understating the file, 3 SIZE exact)
        #[serde(default)]
        more_digests: u8,
    },
    /// domain B: signed base package with one bit flipped in the main header or payload;
    /// `fixup` = the attacker also recomputes the (unsigned) digests
    BitFlip {
        base: u8,
        bit: u32,
        fixup: bool,
        /// the attacker rebuilds the (unsigned) signature header: keeps the signatures, adds
        /// freshly computed MD5/SHA1/SHA256 digests of the tampered header and payload
        #[serde(default)]
        rebuild_sig: bool,
    },
    Mutated {
        base: u8,
        muts: Vec<crate::gen::mutate::Mutation>,
        region: u8,
        fixup: bool,
        #[serde(default)]
        rebuild_sig: bool,
    },
    /// structured, length-changing edit: a new index entry (and its data) is appended to the main
    /// header behind everything that was there, or an existing entry's data is left alone and
    /// il/dl are raised; `mode` 0 plain, 1 in-place digest fix-up, 2 signature header rebuilt
    Appended { base: u8, tag: u32, #[serde(with = "crate::engine::hexser")] data: Vec<u8>, mode: u8 },
}

#[derive(Debug)]
struct Recorder {
    answers: Vec<bool>,
    reject_kinds: Vec<u8>,
    calls: RefCell<Vec<(Vec<u8>, Vec<u8>, bool)>>,
}

impl rpm::signature::Verifying for Recorder {
    type Signature = Vec<u8>;
    fn verify(&self, mut data: impl std::io::Read, signature: &[u8]) -> Result<(), rpm::Error> {
        let mut d = Vec::new();
        let _ = data.read_to_end(&mut d);
        let mut calls = self.calls.borrow_mut();
        let ans = self.answers.get(calls.len()).copied().unwrap_or(false);
        let kind = self.reject_kinds.get(calls.len()).copied().unwrap_or(0);
        calls.push((d, signature.to_vec(), ans));
        if ans {
            Ok(())
        } else {
            Err(match kind % 5 {
                0 => rpm::Error::NoSignatureFound,
                1 => rpm::Error::KeyNotFoundError { key_ref: "0123456789abcdef".into() },
                2 => rpm::Error::DigestMismatchError,
                3 => rpm::Error::Io(std::io::Error::new(std::io::ErrorKind::Other, "scripted")),
                _ => rpm::Error::Nom("scripted rejection".into()),
            })
        }
    }
    fn algorithm(&self) -> rpm::signature::AlgorithmType {
        rpm::signature::AlgorithmType::RSA
    }
}

fn sig_entry(tag: u32, v: &SigVal) -> (u32, Val) {
    let val = match v {
        SigVal::Array { items, i18n } => {
            let strs: Vec<HexBytes> = items
                .iter()
                .map(|it| {
                    HexBytes(match it {
                        ArrItem::Blob(b) => base64::engine::general_purpose::STANDARD.encode(b).into_bytes(),
                        ArrItem::Malformed(s) => s.clone().into_bytes(),
                        ArrItem::Empty => vec![],
                    })
                })
                .collect();
            if *i18n {
                Val::I18n(strs)
            } else {
                Val::StrArray(strs)
            }
        }
        SigVal::Bin(b) | SigVal::WrongBinForArray(b) => Val::Bin(b.clone()),
        SigVal::WrongStr(s) => Val::s(s),
        SigVal::WrongInt(i) => Val::Int32(vec![*i]),
    };
    (tag, val)
}

/// in-place fix-up of the unsigned digests after a modification: SHA256/SHA1/MD5 in the
/// signature header (same length, overwritten inside the store)
fn fixup_sig_digests(bytes: &mut [u8]) {
    let Ok(seg) = fmt::decode(bytes) else { return };
    let hb = fmt::normalized_header_bytes(bytes, &seg.hdr);
    let payload = bytes[seg.payload_start..].to_vec();
    let mut patch = |tag: u32, data: Vec<u8>| {
        if let Some(e) = seg.sig.find(tag) {
            let at = seg.sig.store_start + e.offset.max(0) as usize;
            if at + data.len() <= seg.sig.end {
                bytes[at..at + data.len()].copy_from_slice(&data);
            }
        }
    };
    patch(tags::SIG_SHA256, digests::sha256_hex(&[&hb]).into_bytes());
    patch(tags::SIG_SHA1, digests::sha1_hex(&[&hb]).into_bytes());
    patch(tags::SIG_MD5, digests::md5_raw(&[&hb, &payload]));
}

fn reencode_sig(bytes: &[u8], entries: Vec<(u32, Val)>) -> Option<Vec<u8>> {
    let seg = fmt::decode(bytes).ok()?;
    let mut entries = entries;
    entries.sort_by_key(|e| e.0);
    let sig = fmt::layout(&entries, Some(fmt::TAG_HEADERSIGNATURES));
    let mut out = bytes[..fmt::LEAD_LEN].to_vec();
    sig.encode(&mut out);
    out.extend(std::iter::repeat(0u8).take(fmt::sig_padding(sig.dl)));
    out.extend_from_slice(&bytes[seg.hdr.start..]);
    Some(out)
}

fn sig_entries(bytes: &[u8]) -> Option<Vec<(u32, Val)>> {
    let seg = fmt::decode(bytes).ok()?;
    let mut v = vec![];
    for e in &seg.sig.entries {
        if e.tag >= 100 {
            v.push((e.tag, fmt::decode_entry(seg.sig.store(bytes), e)?));
        }
    }
    Some(v)
}

/// the package with the OpenPGP tag removed: verification has to go through the legacy tag
fn legacy_only(bytes: &[u8]) -> Option<Vec<u8>> {
    let mut e = sig_entries(bytes)?;
    e.retain(|x| x.0 != tags::SIG_OPENPGP);
    if !e.iter().any(|x| x.0 == tags::SIG_RSA || x.0 == tags::SIG_DSA) {
        return None;
    }
    reencode_sig(bytes, e)
}

/// the package with a single legacy header+payload signature (tag 1002) made with key `k`
fn header_and_payload_signed(bytes: &[u8], k: usize) -> Option<Vec<u8>> {
    use rpm::signature::Signing;
    let seg = fmt::decode(bytes).ok()?;
    let mut data = fmt::normalized_header_bytes(bytes, &seg.hdr);
    data.extend_from_slice(&bytes[seg.payload_start..]);
    let blob = panics::catch(|| keys().signers[k].sign(&data[..], rpm::Timestamp(1_600_000_000))).ok()?.ok()?;
    let mut e = sig_entries(bytes)?;
    e.retain(|x| ![tags::SIG_OPENPGP, tags::SIG_RSA, tags::SIG_DSA].contains(&x.0));
    e.push((tags::SIG_PGP, Val::Bin(blob)));
    reencode_sig(bytes, e)
}

/// append one STRING entry to the main header: index record after the last record, data after the
/// last store byte (i.e. behind the region trailer), il and dl raised; nothing else is touched
fn append_entry(bytes: &[u8], tag: u32, data: &[u8]) -> Option<Vec<u8>> {
    let seg = fmt::decode(bytes).ok()?;
    let h = &seg.hdr;
    let mut out = bytes[..h.start].to_vec();
    out.extend_from_slice(&bytes[h.start..h.start + 8]);
    out.extend_from_slice(&(h.il + 1).to_be_bytes());
    let mut payload_data = data.to_vec();
    payload_data.retain(|b| *b != 0);
    payload_data.push(0);
    out.extend_from_slice(&(h.dl + payload_data.len() as u32).to_be_bytes());
    out.extend_from_slice(&bytes[h.start + 16..h.store_start]);
    out.extend_from_slice(&tag.to_be_bytes());
    out.extend_from_slice(&fmt::T_STRING.to_be_bytes());
    out.extend_from_slice(&h.dl.to_be_bytes());
    out.extend_from_slice(&1u32.to_be_bytes());
    out.extend_from_slice(&bytes[h.store_start..h.end]);
    out.extend_from_slice(&payload_data);
    out.extend_from_slice(&bytes[seg.payload_start..]);
    Some(out)
}

/// rebuild the signature header: signatures kept verbatim, digests replaced by (or added as)
/// correct MD5 / SHA1 / SHA256 values of the current header and payload
fn rebuild_sig_header(bytes: &[u8]) -> Option<Vec<u8>> {
    let seg = fmt::decode(bytes).ok()?;
    let hb = fmt::normalized_header_bytes(bytes, &seg.hdr);
    let payload = &bytes[seg.payload_start..];
    let mut entries: Vec<(u32, Val)> = vec![];
    for e in &seg.sig.entries {
        if e.tag < 100 || [tags::SIG_MD5, tags::SIG_SHA1, tags::SIG_SHA256].contains(&e.tag) {
            continue;
        }
        entries.push((e.tag, fmt::decode_entry(seg.sig.store(bytes), e)?));
    }
    entries.push((tags::SIG_MD5, Val::Bin(digests::md5_raw(&[&hb, payload]))));
    entries.push((tags::SIG_SHA1, Val::s(&digests::sha1_hex(&[&hb]))));
    entries.push((tags::SIG_SHA256, Val::s(&digests::sha256_hex(&[&hb]))));
    entries.sort_by_key(|e| e.0);
    let sig = fmt::layout(&entries, Some(fmt::TAG_HEADERSIGNATURES));
    let mut out = bytes[..fmt::LEAD_LEN].to_vec();
    sig.encode(&mut out);
    out.extend(std::iter::repeat(0u8).take(fmt::sig_padding(sig.dl)));
    out.extend_from_slice(&bytes[seg.hdr.start..]);
    Some(out)
}

/// overwrite PAYLOADDIGEST in the main header with the digest of the current payload
fn fixup_payload_digest(bytes: &mut [u8]) {
    let Ok(seg) = fmt::decode(bytes) else { return };
    let d = digests::sha256_hex(&[&bytes[seg.payload_start..]]).into_bytes();
    if let Some(e) = seg.hdr.find(tags::PAYLOADDIGEST) {
        let at = seg.hdr.store_start + e.offset.max(0) as usize;
        if e.typ == fmt::T_STRING_ARRAY && at + d.len() <= seg.hdr.end {
            bytes[at..at + d.len()].copy_from_slice(&d);
        }
    }
}

fn blob() -> BoxedStrategy<Vec<u8>> {
    // unique-ish random blobs; some shorter than five bytes
    prop_oneof![4 => proptest::collection::vec(any::<u8>(), 8..24), 1 => proptest::collection::vec(any::<u8>(), 0..5)].boxed()
}

fn arr_item() -> BoxedStrategy<ArrItem> {
    prop_oneof![5 => blob().prop_map(ArrItem::Blob), 1 => "[!*#]{1,6}".prop_map(ArrItem::Malformed), 1 => "[A-Za-z0-9]{1,3}=?".prop_map(ArrItem::Malformed), 1 => Just(ArrItem::Empty)].boxed()
}

fn legacy_val() -> BoxedStrategy<SigVal> {
    prop_oneof![6 => blob().prop_map(SigVal::Bin), 1 => "[a-z]{0,6}".prop_map(SigVal::WrongStr), 1 => any::<u32>().prop_map(SigVal::WrongInt)].boxed()
}

fn openpgp_val() -> BoxedStrategy<SigVal> {
    prop_oneof![
        8 => (proptest::collection::vec(arr_item(), 0..4), prop::bool::weighted(0.25)).prop_map(|(items, i18n)| SigVal::Array { items, i18n }),
        1 => "[a-zA-Z0-9+/]{0,12}".prop_map(SigVal::WrongStr),
        1 => blob().prop_map(SigVal::WrongBinForArray),
        1 => any::<u32>().prop_map(SigVal::WrongInt),
    ]
    .boxed()
}

impl Property for C02 {
    type Case = C02Case;
    const ID: &'static str = "C02";
    fn new(tier: Tier) -> Self {
        // packages built and signed by the library: 3 key types x {no files, one file}
        let mut bases = vec![];
        let kinds: &[u8] = if tier == Tier::Quick { &[2, 3, 0] } else { &[2, 3, 0, 1] };
        for (n, &k) in kinds.iter().enumerate() {
            for with_file in [false, true] {
                if tier == Tier::Quick && n == 2 && with_file {
                    continue;
                }
                let mut cfg = BuilderConfig::minimal("signed");
                cfg.signer = Some(k);
                cfg.source_date = Some(1_600_000_000);
                cfg.compression = Comp { kind: if with_file { 2 } else { 1 }, level: Some(1).filter(|_| with_file) };
                if with_file {
                    cfg.files = vec![FileSpec { dot_style: false, components: vec!["opt".into(), "f".into()], content: ContentSpec { size: 40, kind: 1, seed: 1 }, mode: ModeSpec::Regular(0o644), user: None, group: None, flags: 0, caps: None, symlink: None, mtime: 1, verify: None, mode_as_int: 0 }];
                }
                let b = panics::catch(|| build(&cfg).result.ok().and_then(|p| {
                    let mut v = Vec::new();
                    p.write(&mut v).ok().map(|_| v)
                }));
                if let Ok(Some(bytes)) = b {
                    let name = format!("{}-{}", crate::gen::keys::KEY_NAMES[k as usize], if with_file { "file" } else { "nofiles" });
                    // the same package with only the legacy header-only tag (RSA/DSA) left, and with a
                    // legacy header+payload signature (tag 1002) made with the same key
                    if with_file || tier == Tier::Thorough {
                        if let Some(legacy) = legacy_only(&bytes) {
                            bases.push((format!("{name}-legacy-tag-only"), legacy, k as usize));
                        }
                        if let Some(v3) = header_and_payload_signed(&bytes, k as usize) {
                            bases.push((format!("{name}-header+payload-tag"), v3, k as usize));
                        }
                    }
                    bases.push((name, bytes, k as usize));
                }
            }
        }
        // self-check: an untouched base must verify with its key, otherwise it is no base
        bases.retain(|(name, bytes, key)| {
            let ok = panics::catch(|| rpm::Package::parse(&mut &bytes[..]).map(|p| p.verify_signature(&keys().verifiers[*key]).is_ok())).map(|r| r.unwrap_or(false)).unwrap_or(false);
            if !ok {
                eprintln!("C02: base {name} does not verify untouched - dropped");
            }
            ok
        });
        C02 { bases }
    }
    fn rule(&self) -> String {
        format!("domain A: hand-encoded packages whose signature header carries any subset of OPENPGP/RSA/DSA/PGP(header+payload) tags, each with right or wrong data type, 0..3 OpenPGP entries (valid base64 of unique blobs, malformed base64, empty), right/wrong digests, verified with a recording verifier scripted with every accept/reject pattern and five different error kinds for rejections; domain B: {} packages built and signed by the library (as emitted, reduced to the legacy header-only tag, and re-signed with a legacy header+payload tag) with EVERY single bit of main header and payload flipped, plain, with attacker-side in-place recomputation of all digests, and with the unsigned signature header rebuilt around the kept signatures (fresh MD5/SHA1/SHA256 added), plus random multi-byte edits and structured length-changing edits (a new index entry and its data appended behind the existing header content), verified with the real pgp verifier. Non-trivial: A = verifier consulted or result Ok; B = the mutant parses and differs from the original; distinct by hash of the package bytes.", self.bases.len())
    }
    fn assumptions(&self) -> Vec<String> {
        vec!["the converse (a correctly signed package must verify) is not part of the statement and not asserted here (C10 covers it)".into()]
    }
    fn required_labels(&self, _t: Tier) -> Vec<&'static str> {
        vec!["base-legacy-tag-only", "base-header+payload-tag", "recording", "returned-ok", "verifier-consulted", "openpgp-zero-entries", "openpgp-wrong-type", "legacy-pgp-tag", "bitflip-differs", "bitflip-fixup", "bitflip-sig-rebuilt", "appended-entry-differs", "appended-entry-sig-rebuilt", "all-accepted-but-digest-wrong", "permuted-sig-index", "wrong-digest-of-other-length", "size-entry-understates"]
    }
    fn phases(&self, tier: Tier) -> Vec<Phase<C02Case>> {
        let mut flips: Vec<(u8, u32)> = vec![];
        for (i, (_, b, _)) in self.bases.iter().enumerate() {
            if let Ok(seg) = fmt::decode(b) {
                for bit in (seg.hdr.start as u32 * 8)..(b.len() as u32 * 8) {
                    flips.push((i as u8, bit));
                }
            }
        }
        let flips = Arc::new(flips);
        let f2 = flips.clone();
        let nb = self.bases.len() as u8;
        vec![
            Phase::Random {
                name: "recording-verifier",
                cases: tier.pick(200_000, 20_000_000),
                strat: Arc::new(|| {
                    (
                        proptest::collection::vec(any::<u8>(), 0..24),
                        proptest::option::weighted(0.6, openpgp_val()),
                        proptest::option::weighted(0.35, legacy_val()),
                        proptest::option::weighted(0.35, legacy_val()),
                        proptest::option::weighted(0.35, legacy_val()),
                        prop::bool::weighted(0.85),
                        proptest::option::weighted(0.5, prop::bool::weighted(0.85)),
                        (prop_oneof![3 => Just(vec![true; 6]), 2 => proptest::collection::vec(any::<bool>(), 0..5), 1 => proptest::collection::vec(prop::bool::weighted(0.8), 4)], proptest::collection::vec(0u8..5, 6)),
                        (prop_oneof![1 => Just(vec![]), 1 => proptest::collection::vec(0u16..8, 8)], prop_oneof![2 => Just(0u8), 2 => Just(3u8), 2 => 0u8..64, 2 => any::<u8>()]),
                    )
                        .prop_map(|(payload, openpgp, rsa, dsa, pgp, digests_ok, payload_digest, (answers, reject_kinds), (order, more_digests))| C02Case::Recording { payload, openpgp, rsa, dsa, pgp, digests_ok, payload_digest, answers, reject_kinds, order, more_digests })
                        .boxed()
                }),
            },
            Phase::Enumerate {
                name: "every-bit-flip",
                total: flips.len() as u64 * 3,
                exhaustive: true,
                gen: Arc::new(move |i| f2.get((i / 3) as usize).map(|(base, bit)| C02Case::BitFlip { base: *base, bit: *bit, fixup: i % 3 == 1, rebuild_sig: i % 3 == 2 })),
            },
            Phase::Random {
                name: "appended-entries",
                cases: tier.pick(30_000, 3_000_000),
                strat: Arc::new(move || {
                    (0..nb.max(1), prop_oneof![3 => proptest::sample::select(vec![tags::POSTIN, tags::PREIN, tags::VENDOR, tags::URL, tags::NAME, tags::PAYLOADCOMPRESSOR, 9999u32, 1u32 << 20]), 1 => any::<u32>()], proptest::collection::vec(any::<u8>(), 0..24), 0u8..3)
                        .prop_map(|(base, tag, data, mode)| C02Case::Appended { base, tag, data, mode })
                        .boxed()
                }),
            },
            Phase::Random {
                name: "multi-byte-edits",
                cases: tier.pick(100_000, 10_000_000),
                strat: Arc::new(move || {
                    (0..nb.max(1), proptest::collection::vec(crate::gen::mutate::mutation(), 1..4), prop_oneof![Just(3u8), Just(4u8), Just(6u8)], 0u8..3)
                        .prop_map(|(base, muts, region, mode)| C02Case::Mutated { base, muts, region, fixup: mode == 1, rebuild_sig: mode == 2 })
                        .boxed()
                }),
            },
        ]
    }
    fn check(&self, case: &C02Case) -> Outcome {
        let mut o = Outcome::new();
        let r = match case {
            C02Case::Recording { payload, openpgp, rsa, dsa, pgp, digests_ok, payload_digest, answers, reject_kinds, order, more_digests } => recording(&mut o, payload, openpgp, rsa, dsa, pgp, *digests_ok, *payload_digest, answers, reject_kinds, order, *more_digests),
            C02Case::BitFlip { base, bit, fixup, rebuild_sig } => {
                let (_, orig, key) = &self.bases[*base as usize % self.bases.len()];
                let mut m = orig.clone();
                let i = (*bit / 8) as usize % m.len();
                m[i] ^= 1 << (bit % 8);
                self.tampered(&mut o, orig, m, *key, *fixup, *rebuild_sig, "bitflip")
            }
            C02Case::Appended { base, tag, data, mode } => {
                let (_, orig, key) = &self.bases[*base as usize % self.bases.len()];
                match append_entry(orig, *tag, data) {
                    Some(m) => self.tampered(&mut o, orig, m, *key, *mode == 1, *mode == 2, "appended-entry"),
                    None => Ok(()),
                }
            }
            C02Case::Mutated { base, muts, region, fixup, rebuild_sig } => {
                let (_, orig, key) = &self.bases[*base as usize % self.bases.len()];
                let mut m = orig.clone();
                let r = super::common::region_range(&m, *region);
                crate::gen::mutate::apply(&mut m, r, muts);
                self.tampered(&mut o, orig, m, *key, *fixup, *rebuild_sig, "edit")
            }
        };
        if let Err((c, d)) = r {
            o.fail(&c, d);
        }
        o
    }
}

impl C02 {
    #[allow(clippy::too_many_arguments)]
    fn tampered(&self, o: &mut Outcome, orig: &[u8], mut m: Vec<u8>, key: usize, fixup: bool, rebuild_sig: bool, what: &str) -> Result<(), (String, String)> {
        if fixup {
            fixup_payload_digest(&mut m);
            fixup_sig_digests(&mut m);
        }
        if rebuild_sig {
            match rebuild_sig_header(&m) {
                Some(b) => m = b,
                None => {
                    o.label(format!("{what}-unparseable"));
                    return Ok(());
                }
            }
        }
        let po = rpm::Package::parse(&mut &orig[..]).map_err(|e| ("harness-base".to_string(), e.to_string()))?;
        let pm = match panics::catch(|| rpm::Package::parse(&mut &m[..])) {
            Ok(Ok(p)) => p,
            _ => {
                o.label(format!("{what}-unparseable"));
                return Ok(());
            }
        };
        if pm.metadata.header == po.metadata.header && pm.content == po.content {
            o.label(format!("{what}-parses-equal"));
            return Ok(());
        }
        o.label(format!("{what}-differs"));
        if what == "bitflip" {
            let name = self.bases.iter().find(|b| b.1 == orig).map(|b| b.0.as_str()).unwrap_or("");
            if name.ends_with("legacy-tag-only") {
                o.label("base-legacy-tag-only");
            }
            if name.ends_with("header+payload-tag") {
                o.label("base-header+payload-tag");
            }
        }
        if fixup {
            o.label(format!("{what}-fixup"));
        }
        if rebuild_sig {
            o.label(format!("{what}-sig-rebuilt"));
        }
        o.nontrivial_key(fnv1a(&m));
        let v = &keys().verifiers[key];
        match panics::catch(|| pm.verify_signature(v)) {
            Ok(Err(_)) => Ok(()),
            Ok(Ok(())) => Err(("tampered-verifies".into(), format!("a package whose header/payload was modified ({what}{}) still verifies with the signer's key", if fixup { ", unsigned digests recomputed" } else if rebuild_sig { ", signature header rebuilt with fresh MD5/SHA1/SHA256" } else { "" }))),
            Err(_) => {
                o.label("crashed");
                Ok(())
            }
        }
    }
}

#[allow(clippy::too_many_arguments)]
fn recording(o: &mut Outcome, payload: &[u8], openpgp: &Option<SigVal>, rsa: &Option<SigVal>, dsa: &Option<SigVal>, pgp: &Option<SigVal>, digests_ok: bool, payload_digest: Option<bool>, answers: &[bool], reject_kinds: &[u8], order: &[u16], more_digests: u8) -> Result<(), (String, String)> {
    o.label("recording");
    let mut main = filepkg::basic_entries("rec");
    if let Some(ok) = payload_digest {
        let d = if ok { digests::sha256_hex(&[payload]) } else { digests::sha256_hex(&[b"x", payload]) };
        main.push((tags::PAYLOADDIGEST, Val::sa(&[&d])));
        main.push((tags::PAYLOADDIGESTALGO, Val::Int32(vec![8])));
    }
    main.sort_by_key(|e| e.0);
    let hdr = fmt::layout(&main, Some(fmt::TAG_HEADERIMMUTABLE));
    let hb = hdr.bytes();
    // how a wrongly recorded digest is wrong: another digest of the same length, a strict prefix
    // of the true one, or the true one with something appended
    let flavour = (more_digests >> 4) & 3;
    if flavour != 0 {
        o.label("wrong-digest-of-other-length");
    }
    let wrong_hex = |right: String, other: String| match flavour {
        1 => right[..right.len() / 4].to_string(),
        2 => format!("{right}00"),
        _ => other,
    };
    let wrong_bin = |right: Vec<u8>, other: Vec<u8>| match flavour {
        1 => right[..4].to_vec(),
        2 => {
            let mut r = right;
            r.push(0);
            r
        }
        _ => other,
    };
    let mut sig = vec![(tags::SIG_SHA256, Val::s(&if digests_ok { digests::sha256_hex(&[&hb]) } else { wrong_hex(digests::sha256_hex(&[&hb]), digests::sha256_hex(&[&hb, b"!"])) }))];
    for (tag, v) in [(tags::SIG_OPENPGP, openpgp), (tags::SIG_RSA, rsa), (tags::SIG_DSA, dsa), (tags::SIG_PGP, pgp)] {
        if let Some(v) = v {
            sig.push(sig_entry(tag, v));
        }
    }
    if more_digests & 1 != 0 {
        sig.push((tags::SIG_MD5, Val::Bin(if more_digests & 4 == 0 { digests::md5_raw(&[&hb, payload]) } else { wrong_bin(digests::md5_raw(&[&hb, payload]), digests::md5_raw(&[&hb, payload, b"!"])) })));
    }
    if more_digests & 2 != 0 {
        sig.push((tags::SIG_SHA1, Val::s(&if more_digests & 8 == 0 { digests::sha1_hex(&[&hb]) } else { wrong_hex(digests::sha1_hex(&[&hb]), digests::sha1_hex(&[&hb, b"!"])) })));
    }
    // an (unsigned) size entry, exact or understating what follows the signature header: what a
    // signature has to cover is the header and the payload as they are in the file
    let total = (hb.len() + payload.len()) as u64;
    let under = total.saturating_sub(1 + (payload.len() as u64).min(3));
    match more_digests >> 6 {
        1 => {
            o.label("size-entry-understates");
            sig.push((tags::SIG_SIZE, Val::Int32(vec![under as u32])));
        }
        2 => {
            o.label("size-entry-understates");
            sig.push((tags::SIG_LONGSIZE, Val::Int64(vec![under])));
        }
        3 => sig.push((tags::SIG_SIZE, Val::Int32(vec![total as u32]))),
        _ => {}
    }
    sig.sort_by_key(|e| e.0);
    // the data of the entries stays where it is; only the order of the index records varies
    let mut sigh = fmt::layout(&sig, Some(fmt::TAG_HEADERSIGNATURES));
    if !order.is_empty() {
        o.label("permuted-sig-index");
        let mut keyed: Vec<(u16, usize, fmt::RawEntry)> = sigh.entries.drain(..).enumerate().map(|(i, e)| (order[i % order.len()], i, e)).collect();
        keyed.sort_by_key(|k| (k.0, k.1));
        sigh.entries.extend(keyed.into_iter().map(|k| k.2));
    }
    let pad = vec![0u8; fmt::sig_padding(sigh.dl)];
    let bytes = fmt::RawPackage { lead: fmt::default_lead("rec"), sig: sigh, sig_pad: pad, hdr, payload: payload.to_vec() }.encode();
    if matches!(openpgp, Some(SigVal::Array { items, .. }) if items.is_empty()) {
        o.label("openpgp-zero-entries");
    }
    if matches!(openpgp, Some(SigVal::WrongStr(_)) | Some(SigVal::WrongInt(_)) | Some(SigVal::WrongBinForArray(_))) {
        o.label("openpgp-wrong-type");
    }
    if pgp.is_some() {
        o.label("legacy-pgp-tag");
    }
    let p = match panics::catch(|| super::common::with_source(&bytes, fnv1a(&bytes) >> 9, |mut r| rpm::Package::parse(&mut r))) {
        Ok(Ok(p)) => p,
        _ => {
            o.label("unparseable");
            return Ok(());
        }
    };
    let all_digests_ok = digests_ok && payload_digest != Some(false) && (more_digests & 5 != 5) && (more_digests & 10 != 10);
    if !all_digests_ok && answers.iter().all(|a| *a) && !answers.is_empty() {
        o.label("all-accepted-but-digest-wrong");
    }
    let rec = Recorder { answers: answers.to_vec(), reject_kinds: reject_kinds.to_vec(), calls: RefCell::new(vec![]) };
    let res = match panics::catch(|| p.verify_signature(&rec)) {
        Ok(r) => r,
        Err(_) => {
            o.label("crashed");
            return Ok(());
        }
    };
    let calls = rec.calls.borrow();
    if !calls.is_empty() {
        o.label("verifier-consulted");
    }
    if !calls.is_empty() || res.is_ok() {
        o.nontrivial_key(fnv1a(&bytes));
    }
    if res.is_err() {
        return Ok(());
    }
    o.label("returned-ok");
    // --- verification succeeded: everything below must hold ---
    if calls.is_empty() {
        return Err(("ok-without-verification".into(), "verify_signature returned Ok although the verifier was never consulted".into()));
    }
    if let Some((i, _)) = calls.iter().enumerate().find(|(_, c)| !c.2) {
        return Err(("ok-despite-rejection".into(), format!("verify_signature returned Ok although the verifier rejected the signature of call #{i} (error kind {})", reject_kinds.get(i).copied().unwrap_or(0) % 5)));
    }
    if !all_digests_ok {
        return Err(("ok-despite-digest-mismatch".into(), "verify_signature returned Ok although a recorded digest does not match".into()));
    }
    // each call: the signature is one of the generated blobs, presented with the bytes it covers
    let header_only: Vec<&Vec<u8>> = {
        let mut v = vec![];
        if let Some(SigVal::Array { items, .. }) = openpgp {
            for it in items {
                if let ArrItem::Blob(b) = it {
                    v.push(b);
                }
            }
        }
        for s in [rsa, dsa] {
            if let Some(SigVal::Bin(b)) = s {
                v.push(b);
            }
        }
        v
    };
    let header_and_payload: Vec<&Vec<u8>> = match pgp {
        Some(SigVal::Bin(b)) => vec![b],
        _ => vec![],
    };
    let mut hp = hb.clone();
    hp.extend_from_slice(payload);
    for (i, (data, sigbytes, _)) in calls.iter().enumerate() {
        // malformed/empty base64 entries decode to bytes the harness cannot predict; they still
        // have to be presented with the header
        let unpredictable = matches!(openpgp, Some(SigVal::Array { items, .. }) if items.iter().any(|i| !matches!(i, ArrItem::Blob(_))));
        let as_header = (header_only.iter().any(|b| *b == sigbytes) || unpredictable) && *data == hb;
        let as_both = header_and_payload.iter().any(|b| *b == sigbytes) && *data == hp;
        if !(as_header || as_both) {
            let known = header_only.iter().chain(header_and_payload.iter()).any(|b| *b == sigbytes);
            return Err(("wrong-bytes-presented".into(), format!("call #{i}: signature {} was presented with {} bytes of data that are not what it has to cover (header {} bytes, header+payload {} bytes)", if known { "from the package" } else { "NOT in the package" }, data.len(), hb.len(), hp.len())));
        }
    }
    Ok(())
}
