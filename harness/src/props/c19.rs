//! C19 - capability text is accepted only when every clause is well formed.

use crate::engine::*;
use crate::refimpl::caps::{self, Verdict};
use proptest::prelude::*;
use serde::{Deserialize, Serialize};
use std::str::FromStr;
use std::sync::Arc;

pub struct C19;

pub const TOKENS: [&str; 14] = ["cap_chown", "CAP_NET_RAW", "all", "ALL", "cap_bogus", ",", "=", "+", "-", "e", "i", "p", "x", " "];

#[derive(Serialize, Deserialize, Clone, Debug)]
pub struct C19Case(pub String);

pub fn token_string(mut i: u64, maxlen: u32) -> Option<String> {
    let k = TOKENS.len() as u64;
    for len in 0..=maxlen {
        let n = k.pow(len);
        if i < n {
            let mut s = String::new();
            for _ in 0..len {
                s.push_str(TOKENS[(i % k) as usize]);
                i /= k;
            }
            return Some(s);
        }
        i -= n;
    }
    None
}

pub fn total_strings(maxlen: u32) -> u64 {
    (0..=maxlen).map(|l| (TOKENS.len() as u64).pow(l)).sum()
}

/// oracle shared with the fuzz target
pub fn judge_text(text: &str) -> Result<Verdict, (String, String)> {
    let verdict = caps::judge(text);
    let r = panics::catch(|| {
        (
            rpm::FileCaps::from_str(text).map(|c| c.to_string()).map_err(|e| e.to_string()),
            rpm::FileCaps::new(text.to_string()).map(|c| c.to_string()).map_err(|e| e.to_string()),
            rpm::FileOptions::new("/x").caps(text).map(|_| ()).map_err(|e| matches!(e, rpm::Error::InvalidCapabilities { .. })),
        )
    });
    let (a, b, c) = match r {
        Ok(v) => v,
        Err(p) => return Err(("panic".into(), format!("{text:?}: {p}"))),
    };
    if a.is_ok() != b.is_ok() || a.is_ok() != c.is_ok() {
        return Err(("entry-points-disagree".into(), format!("{text:?}: from_str {:?}, new {:?}, FileOptions::caps ok={}", a, b, c.is_ok())));
    }
    match verdict {
        Verdict::Accept => {
            if let Err(e) = &a {
                return Err(("rejects-well-formed".into(), format!("{text:?} is well formed but rejected: {e}")));
            }
        }
        Verdict::Reject => {
            if a.is_ok() {
                return Err(("accepts-malformed".into(), format!("{text:?} is malformed but accepted")));
            }

        }
        Verdict::Unspecified => {}
    }
    if let Ok(shown) = &a {
        if shown != text || b.as_deref() != Ok(text) {
            return Err(("not-verbatim".into(), format!("{text:?} is kept as {shown:?}")));
        }
        // the text accepted by FileOptions::caps must reach the package verbatim as well; done for
        // every accepted text with outer whitespace and for a 1-in-8 sample of the others
        let outer_ws = text.starts_with(char::is_whitespace) || text.ends_with(char::is_whitespace);
        if outer_ws || crate::engine::fnv1a(text.as_bytes()) % 8 == 0 {
            match panics::catch(|| caps_through_builder(text)) {
                Ok(Ok(Some(stored))) if stored == text => {}
                Ok(Ok(stored)) => return Err(("not-verbatim".into(), format!("{text:?} given to FileOptions::caps is stored in the package as {stored:?}"))),
                Ok(Err(e)) => return Err(("not-verbatim".into(), format!("{text:?} is accepted but a package carrying it cannot be built/read: {e}"))),
                Err(p) => return Err(("panic".into(), format!("{text:?}: {p}"))),
            }
        }
    }
    Ok(verdict)
}

/// build a one-file package with this capability text and read the text back from the header
fn caps_through_builder(text: &str) -> Result<Option<String>, String> {
    let dir = crate::gen::builder::TempDir::new("c19");
    let src = dir.0.join("f");
    std::fs::write(&src, b"x").map_err(|e| e.to_string())?;
    let pkg = rpm::PackageBuilder::new("c19", "1", "MIT", "noarch", "caps")
        .compression(rpm::CompressionType::None)
        .with_file(&src, rpm::FileOptions::new("/f").caps(text).map_err(|e| e.to_string())?)
        .map_err(|e| e.to_string())?
        .build()
        .map_err(|e| e.to_string())?;
    let mut w = Vec::new();
    pkg.write(&mut w).map_err(|e| e.to_string())?;
    let p = rpm::Package::parse(&mut &w[..]).map_err(|e| e.to_string())?;
    let entries = p.metadata.get_file_entries().map_err(|e| e.to_string())?;
    Ok(entries.first().and_then(|e| e.caps.clone()))
}

/// capability-like texts whose letters change their UTF-8 length under case mapping (upper-case
/// shorter: dotless i, long s, fi ligature; longer: n-apostrophe, j-caron, iota with dialytika
/// and tonos; same: sharp s; Kelvin/Angstrom signs lower-case to ASCII / shorter forms)
pub fn unicode_caps() -> BoxedStrategy<String> {
    let special = proptest::sample::select(vec!["ı", "ſ", "ﬁ", "ß", "ŉ", "ǰ", "ΐ", "\u{212A}", "\u{212B}", "İ", "ǅ", "é", "ﬃ"]);
    let piece = prop_oneof![
        4 => special.prop_map(|s| s.to_string()),
        2 => proptest::sample::select(vec!["cap_chown", "cap_kill", "CAP_SETUID", "all", "cap_", "_", "c", "p"]).prop_map(|s| s.to_string()),
        1 => Just(",".to_string()),
    ];
    // long unknown names with a multi-byte character at every offset around 16/32/64/128/256
    // (error messages and buffers that cut a name at a fixed byte length)
    let long = (proptest::sample::select(vec![16usize, 32, 64, 128, 256, 4096]), 0usize..6, proptest::sample::select(vec!["é", "ı", "ﬁ", "漢", "🦀", "ŉ"]), 0usize..40, any::<bool>())
        .prop_map(|(edge, back, ch, tail, listed)| format!("{}{}{}{}=ep", if listed { "cap_chown," } else { "" }, "x".repeat(edge.saturating_sub(back)), ch, "y".repeat(tail)));
    let short = (proptest::collection::vec(piece, 0..8), proptest::option::weighted(0.6, proptest::sample::select(vec!["cap_chown,", "cap_chown ", "=e "])), "[=+-]", "[eip]{0,3}", proptest::option::weighted(0.3, proptest::sample::select(vec!["é", "ı", " cap_kill+i", "ﬁ"])))
        .prop_map(|(name, before, op, flags, tail)| format!("{}{}{op}{flags}{}", before.unwrap_or(""), name.concat(), tail.unwrap_or("")));
    prop_oneof![4 => short, 1 => long].boxed()
}

impl Property for C19 {
    type Case = C19Case;
    const ID: &'static str = "C19";
    fn new(_t: Tier) -> Self {
        C19
    }
    fn rule(&self) -> String {
        format!("complete enumeration of all strings of up to 5 (quick) / 6 (thorough) tokens over {:?}, plus random longer strings built from the clause grammar with 0-2 injected faults, texts with letters whose UTF-8 length changes under case mapping, and name lists of up to 200 names. Every string is a distinct case; non-trivial = the reference gives a definite verdict (Accept/Reject) and the text contains an operator.", TOKENS)
    }
    fn assumptions(&self) -> Vec<String> {
        vec!["reference acceptor refimpl::caps follows the C19 statement; it answers Unspecified (no accept/reject assertion) for an empty clause list, leading/trailing whitespace, a clause ending in a bare operator, 'all' inside a multi-name list and non-ASCII letters in names".into()]
    }
    fn required_labels(&self, _t: Tier) -> Vec<&'static str> {
        vec!["accept", "reject", "unspecified", "multi-clause-accept", "multi-clause-reject"]
    }
    fn phases(&self, tier: Tier) -> Vec<Phase<C19Case>> {
        let maxlen = tier.pick(5, 6) as u32;
        vec![
            Phase::Enumerate { name: "all-token-strings", total: total_strings(maxlen), exhaustive: true, gen: Arc::new(move |i| token_string(i, maxlen).map(C19Case)) },
            Phase::Random {
                name: "grammar-with-faults",
                cases: tier.pick(600_000, 4_000_000),
                strat: Arc::new(|| {
                    let name = || prop_oneof![6 => proptest::sample::select(caps::CAP_NAMES.to_vec()).prop_map(|s| s.to_string()), 2 => proptest::sample::select(caps::CAP_NAMES.to_vec()).prop_map(|s| s.to_uppercase()), 1 => Just("all".to_string()), 1 => Just("cap_nope".to_string()), 1 => Just(String::new())];
                    let group = || ("[=+-]", "[eip]{0,3}").prop_map(|(o, f)| format!("{o}{f}"));
                    let clause = (proptest::collection::vec(name(), 0..3), proptest::collection::vec(group(), 1..3)).prop_map(|(n, g)| format!("{}{}", n.join(","), g.concat()));
                    (proptest::collection::vec(clause, 1..4), proptest::collection::vec((any::<u16>(), prop_oneof![Just("+"), Just("-"), Just("="), Just("x"), Just(","), Just(" "), Just("\t"), Just("é")]), 0..3), prop_oneof![8 => Just(" "), 1 => Just("  "), 1 => Just("\t")])
                        .prop_map(|(clauses, faults, sep)| {
                            let mut s = clauses.join(sep);
                            for (pos, f) in faults {
                                let mut at = (pos as usize * (s.len() + 1)) >> 16;
                                while !s.is_char_boundary(at) {
                                    at -= 1;
                                }
                                s.insert_str(at, f);
                            }
                            C19Case(s)
                        })
                        .boxed()
                }),
            },
            Phase::Random { name: "unicode-case-mapping", cases: tier.pick(60_000, 1_000_000), strat: Arc::new(|| unicode_caps().prop_map(C19Case).boxed()) },
            // long texts: name lists of up to 200 names (with repeats, all known names, mixed
            // case), up to 12 clauses, up to 6 operator groups per clause - kilobytes of
            // well-formed text, with at most one injected fault
            Phase::Random {
                name: "long-lists",
                cases: tier.pick(40_000, 1_000_000),
                strat: Arc::new(|| {
                    let name = || prop_oneof![10 => proptest::sample::select(caps::CAP_NAMES.to_vec()).prop_map(|s| s.to_string()), 2 => proptest::sample::select(caps::CAP_NAMES.to_vec()).prop_map(|s| s.to_uppercase())];
                    let names = prop_oneof![
                        3 => proptest::collection::vec(name(), 1..200),
                        1 => (proptest::collection::vec(name(), 0..60), any::<bool>()).prop_map(|(extra, front)| {
                            let mut all: Vec<String> = caps::CAP_NAMES.iter().map(|s| s.to_string()).collect();
                            if front { let mut e = extra; e.extend(all); e } else { all.extend(extra); all }
                        }),
                        1 => (name(), 1usize..200).prop_map(|(n, k)| vec![n; k]),
                    ];
                    let group = || ("[=+-]", "[eip]{0,3}").prop_map(|(o, f)| format!("{o}{f}"));
                    let clause = (names, proptest::collection::vec(group(), 1..6)).prop_map(|(n, g)| format!("{}{}", n.join(","), g.concat()));
                    (proptest::collection::vec(clause, 1..12), proptest::option::weighted(0.3, (any::<u16>(), prop_oneof![Just("+"), Just("="), Just("x"), Just(","), Just(" ")])))
                        .prop_map(|(clauses, fault)| {
                            let mut s = clauses.join(" ");
                            if let Some((pos, f)) = fault {
                                let at = (pos as usize * (s.len() + 1)) >> 16;
                                s.insert_str(at, f);
                            }
                            C19Case(s)
                        })
                        .boxed()
                }),
            },
        ]
    }
    fn extra(&self, tier: Tier, seed: u64) -> ExtraResult<C19Case> {
        let mut r = ExtraResult::default();
        if tier != Tier::Thorough {
            return r;
        }
        let seeds = vec![b"cap_chown=p".to_vec(), b"=e cap_chown-e".to_vec(), b"cap_sys_admin,cap_sys_ptrace=pe".to_vec(), b"all=e".to_vec(), b"cap_checkpoint_restore+eip cap_bpf-i".to_vec()];
        let c = fuzz::run(&fuzz::Campaign { target: "fz_caps", runs: 1_000_000, jobs: 8, max_len: 96, seeds }, seed);
        r.fields = c.fields;
        r.inconclusive = c.inconclusive;
        r.cases = c.artifacts.into_iter().filter_map(|a| String::from_utf8(a).ok()).map(C19Case).collect();
        r
    }
    fn check(&self, case: &C19Case) -> Outcome {
        let mut o = Outcome::new();
        match judge_text(&case.0) {
            Ok(v) => {
                let multi = case.0.split_whitespace().count() > 1;
                match v {
                    Verdict::Accept => {
                        o.label("accept");
                        if multi {
                            o.label("multi-clause-accept");
                        }
                    }
                    Verdict::Reject => {
                        o.label("reject");
                        if multi {
                            o.label("multi-clause-reject");
                        }
                    }
                    Verdict::Unspecified => o.label("unspecified"),
                }
                if v != Verdict::Unspecified && case.0.contains(['=', '+', '-']) {
                    o.nontrivial_key(fnv1a(case.0.as_bytes()));
                }
            }
            Err((c, d)) => o.fail(&c, d),
        }
        o
    }
}
