//! C08 - every digest the builder records is the true digest.

use super::built::*;
use crate::engine::*;
use crate::gen::builder::*;
use crate::refimpl::digests;
use crate::refimpl::fmt;
use crate::refimpl::tags;
use proptest::prelude::*;
use serde::{Deserialize, Serialize};
use std::io::Read;
use std::sync::Arc;

pub struct C08;

#[derive(Serialize, Deserialize, Clone, Debug)]
pub struct C08Case {
    pub cfg: BuilderConfig,
    pub ops: Vec<Op>,
    /// before the operations: 1 = the recorded header digest is corrupted (as in a file with a
    /// stale digest), 2 = the signature header is replaced by that of another package
    #[serde(default)]
    pub stale_sig: u8,
    /// the destination of file #n is given to the builder a second time (bool: spelled the other
    /// way, "./x" for "/x"), with different content. Which of the two the package keeps is the
    /// library's choice; the recorded digests have to describe what it archived.
    #[serde(default)]
    pub dup: Option<(u8, bool)>,
}

/// decompress with the decoder crates directly (not through rpm's decompress_stream)
pub fn decompress(name: Option<&str>, payload: &[u8]) -> Result<Vec<u8>, String> {
    let mut out = Vec::new();
    let r = match name {
        None => {
            out.extend_from_slice(payload);
            Ok(0)
        }
        Some("gzip") => flate2::read::GzDecoder::new(payload).read_to_end(&mut out),
        Some("zstd") => zstd::stream::read::Decoder::new(payload).and_then(|mut d| d.read_to_end(&mut out)),
        Some("xz") => liblzma::read::XzDecoder::new(payload).read_to_end(&mut out),
        Some("bzip2") => bzip2::read::BzDecoder::new(payload).read_to_end(&mut out),
        Some(other) => return Err(format!("unknown compressor {other:?}")),
    };
    r.map(|_| out).map_err(|e| format!("payload does not decompress as {:?}: {e}", name))
}

/// short-write thresholds measured per compressor (design probes): a file at least this large
/// makes the encoder accept only part of a buffer
pub fn above_threshold(comp: &Comp, size: u32, kind: u8) -> bool {
    let incompressible = kind == 2;
    match comp.tag_value() {
        Some("gzip") => (incompressible && size >= 65536) || size >= 200_000,
        Some("zstd") => size >= 131072,
        Some("xz") | Some("bzip2") => size >= 1 << 20,
        _ => false,
    }
}

pub fn check_digests(bytes: &[u8], files: &[(FileSpec, Vec<u8>)], stage: &str) -> Result<(), (String, String)> {
    let seg = fmt::decode(bytes).map_err(|e| ("unsegmentable".to_string(), format!("{stage}: {e}")))?;
    let hdr = fmt::normalized_header_bytes(bytes, &seg.hdr);
    let payload = &bytes[seg.payload_start..];
    let want = digests::sha256_hex(&[&hdr]);
    match fmt::get_str(bytes, &seg.sig, tags::SIG_SHA256) {
        Some(d) if d == want => {}
        other => return Err(("header-sha256".into(), format!("{stage}: signature header records {:?}, the serialised header hashes to {want}", other))),
    }
    if let Some(d) = fmt::get_str(bytes, &seg.sig, tags::SIG_SHA1) {
        if d != digests::sha1_hex(&[&hdr]) {
            return Err(("header-sha1".into(), format!("{stage}: recorded SHA1 {d} is wrong")));
        }
    }
    if let Some(fmt::Val::Bin(d)) = fmt::get_val(bytes, &seg.sig, tags::SIG_MD5) {
        if d != digests::md5_raw(&[&hdr, payload]) {
            return Err(("md5".into(), format!("{stage}: recorded MD5 is wrong")));
        }
    }
    let want = digests::sha256_hex(&[payload]);
    match fmt::get_str_array(bytes, &seg.hdr, tags::PAYLOADDIGEST) {
        Some(d) if d.len() == 1 && d[0] == want => {}
        other => return Err(("payload-digest".into(), format!("{stage}: PAYLOADDIGEST {:?}, compressed payload hashes to {want}", other))),
    }
    if fmt::get_u32s(bytes, &seg.hdr, tags::PAYLOADDIGESTALGO) != Some(vec![8]) {
        return Err(("payload-digest".into(), format!("{stage}: PAYLOADDIGESTALGO is not [8] (SHA-256)")));
    }
    let comp = fmt::get_str(bytes, &seg.hdr, tags::PAYLOADCOMPRESSOR);
    let raw = decompress(comp.as_deref(), payload).map_err(|e| ("payload-undecodable".to_string(), format!("{stage}: {e}")))?;
    let want = digests::sha256_hex(&[&raw]);
    match fmt::get_str_array(bytes, &seg.hdr, tags::PAYLOADDIGESTALT) {
        Some(d) if d.len() == 1 && d[0] == want => {}
        other => return Err(("payload-digest-alt".into(), format!("{stage}: PAYLOADDIGESTALT {:?}, the uncompressed archive ({} bytes) hashes to {want}", other, raw.len()))),
    }
    // every recorded file digest is the digest of what the archive holds for that file
    // (independent of what the harness believes was supplied)
    archived_digests(bytes, &seg, &raw, stage)?;
    if !files.is_empty() {
        let got = fmt::get_str_array(bytes, &seg.hdr, tags::FILEDIGESTS).unwrap_or_default();
        let want: Vec<String> = files.iter().map(|(_, c)| digests::sha256_hex(&[c])).collect();
        if got != want {
            let i = got.iter().zip(&want).position(|(a, b)| a != b).unwrap_or(0);
            return Err(("file-digest".into(), format!("{stage}: FILEDIGESTS differ from the sha256 of the supplied contents (first difference at file #{i}: {:?})", files.get(i).map(|f| f.0.abs_path()))));
        }
        if fmt::get_u32s(bytes, &seg.hdr, tags::FILEDIGESTALGO) != Some(vec![8]) {
            return Err(("file-digest".into(), format!("{stage}: FILEDIGESTALGO is not [8]")));
        }
    }
    Ok(())
}

fn archived_digests(bytes: &[u8], seg: &fmt::Segments, raw: &[u8], stage: &str) -> Result<(), (String, String)> {
    let basenames = fmt::get_str_array(bytes, &seg.hdr, tags::BASENAMES).unwrap_or_default();
    if basenames.is_empty() {
        return Ok(());
    }
    let sizes: Vec<u64> = match fmt::get_u64s(bytes, &seg.hdr, tags::LONGFILESIZES) {
        Some(v) => v,
        None => fmt::get_u32s(bytes, &seg.hdr, tags::FILESIZES).unwrap_or_default().into_iter().map(u64::from).collect(),
    };
    let modes = fmt::get_u16s(bytes, &seg.hdr, tags::FILEMODES).unwrap_or_default();
    let dirnames = fmt::get_str_array(bytes, &seg.hdr, tags::DIRNAMES).unwrap_or_default();
    let dirindexes = fmt::get_u32s(bytes, &seg.hdr, tags::DIRINDEXES).unwrap_or_default();
    let recorded = fmt::get_str_array(bytes, &seg.hdr, tags::FILEDIGESTS).unwrap_or_default();
    let (entries, _) = crate::refimpl::cpio::parse_archive(raw, &sizes).map_err(|e| ("payload-undecodable".to_string(), format!("{stage}: archive: {e}")))?;
    for e in &entries {
        let i = match e.stripped_index {
            Some(ix) => ix as usize,
            None => {
                let name = String::from_utf8_lossy(&e.name).to_string();
                match (0..basenames.len()).find(|i| dirnames.get(*dirindexes.get(*i).unwrap_or(&u32::MAX) as usize).is_some_and(|d| format!(".{d}{}", basenames[*i]) == name)) {
                    Some(i) => i,
                    None => continue,
                }
            }
        };
        let (Some(mode), Some(rec)) = (modes.get(i), recorded.get(i)) else { continue };
        if mode & 0o170000 != 0o100000 {
            continue;
        }
        let want = digests::sha256_hex(&[&e.data]);
        if *rec != want {
            return Err(("file-digest".into(), format!("{stage}: file #{i} ({:?}): FILEDIGESTS records {rec:?} but the {} bytes archived for it hash to {want}", basenames[i], e.data.len())));
        }
    }
    Ok(())
}

pub fn big_sizes() -> BoxedStrategy<u32> {
    prop_oneof![
        6 => size_small(),
        3 => proptest::sample::select(vec![65536u32, 65537, 70_000, 100_000, 131072, 140_000, 200_000, 262_144]),
        1 => proptest::sample::select(vec![1u32 << 20, (1 << 20) + 13, 3 << 20]),
    ]
    .boxed()
}

impl Property for C08 {
    type Case = C08Case;
    const ID: &'static str = "C08";
    fn new(_t: Tier) -> Self {
        C08
    }
    fn rule(&self) -> String {
        "builder configurations biased to files above each compressor's measured short-write threshold (gzip 64 KiB incompressible, zstd 128 KiB, xz/bzip2 1 MiB), all compressors and levels, followed by random sign/clear/re-parse suffixes; all recorded digests are recomputed from the written bytes with RustCrypto and the decoder crates. Non-trivial = at least one file and a compressor other than none; distinct by case hash.".into()
    }
    fn assumptions(&self) -> Vec<String> {
        vec!["decoders (flate2, zstd, liblzma, bzip2) and RustCrypto hashes are trusted; they are called directly, not through the crate under test".into()]
    }
    fn required_labels(&self, _t: Tier) -> Vec<&'static str> {
        vec!["destination-given-twice", "caller-written-signer", "one-source-path-rewritten", "resigned-stale-signature-header", "above-threshold-gzip", "above-threshold-zstd", "above-threshold-xz", "above-threshold-bzip2", "with-ops", "comp-none"]
    }
    fn phases(&self, tier: Tier) -> Vec<Phase<C08Case>> {
        vec![
            Phase::Random {
                name: "large-files",
                cases: tier.pick(500, 20_000),
                strat: Arc::new(|| {
                    (config_any(CfgParams { max_files: 4, sizes: big_sizes(), comp: comp_fast(), sign_prob: 0.1, file_kinds: false, force_large_prob: 0.1, rich_meta: false }), proptest::collection::vec(op_cheap(), 0..3))
                        .prop_map(|(mut cfg, ops)| {
                            if cfg.signer == Some(1) {
                                cfg.signer = Some(0);
                            }
                            C08Case { cfg, ops, stale_sig: 0, dup: None }
                        })
                        .boxed()
                }),
            },
            Phase::Random {
                name: "all-levels-small",
                cases: tier.pick(1_500, 100_000),
                strat: Arc::new(|| {
                    (config_any_reuse(CfgParams { max_files: 5, sizes: size_small(), comp: comp_any(true), sign_prob: 0.1, file_kinds: true, force_large_prob: 0.1, rich_meta: true }), proptest::collection::vec(op_cheap(), 0..3), prop_oneof![4 => Just(0u8), 1 => Just(1u8), 1 => Just(2u8)])
                        .prop_map(|(mut cfg, ops, stale_sig)| {
                            if cfg.signer == Some(1) {
                                cfg.signer = Some(2);
                            }
                            cfg.lazy_signer = stale_sig == 0 && cfg.files.len() % 5 == 1;
                            C08Case { cfg, ops, stale_sig, dup: None }
                        })
                        .boxed()
                }),
            },
            Phase::Random {
                name: "destination-given-twice",
                cases: tier.pick(400, 20_000),
                strat: Arc::new(|| {
                    (config_any(CfgParams { max_files: 4, sizes: size_small(), comp: comp_fast(), sign_prob: 0.0, file_kinds: false, force_large_prob: 0.1, rich_meta: false }), any::<u8>(), any::<bool>())
                        .prop_filter_map("needs a file", |(cfg, n, spell)| if cfg.files.is_empty() { None } else { Some(C08Case { cfg, ops: vec![], stale_sig: 0, dup: Some((n, spell)) }) })
                        .boxed()
                }),
            },
        ]
    }
    fn check(&self, case: &C08Case) -> Outcome {
        if let Some((n, spell)) = case.dup {
            return check_dup(&case.cfg, n, spell);
        }
        let mut o = Outcome::new();
        let cfg = &case.cfg;
        o.label(comp_label(&cfg.compression));
        for f in &cfg.files {
            if above_threshold(&cfg.compression, f.content.size, f.content.kind) {
                o.label(format!("above-threshold-{}", cfg.compression.tag_value().unwrap_or("none")));
            }
        }
        if !case.ops.is_empty() {
            o.label("with-ops");
        }
        if cfg.reuse_source {
            o.label("one-source-path-rewritten");
        }
        if cfg.lazy_signer {
            o.label("caller-written-signer");
        }
        if case.stale_sig != 0 && case.ops.iter().any(|x| !matches!(x, Op::Reparse | Op::SignFail(_))) {
            o.label("resigned-stale-signature-header");
        }
        if !cfg.files.is_empty() && cfg.compression.kind != 1 {
            o.nontrivial_key(fnv1a(serde_json::to_string(case).unwrap_or_default().as_bytes()));
        }
        let r = (|| -> Result<(), (String, String)> {
            let b = build_and_write(cfg)?;
            check_digests(&b.bytes, &b.files, "after build")?;
            let mut pkg = b.pkg;
            // a stale signature header stays stale until the next sign/clear rewrites it
            let mut stale = case.stale_sig != 0;
            match case.stale_sig {
                1 => {
                    let mut bytes = b.bytes.clone();
                    let seg = fmt::decode(&bytes).map_err(|e| ("unsegmentable".to_string(), e))?;
                    if let Some(e) = seg.sig.find(tags::SIG_SHA256) {
                        let at = seg.sig.store_start + e.offset as usize + 5;
                        bytes[at] = if bytes[at] == b'0' { b'1' } else { b'0' };
                    }
                    pkg = parse_pkg(&bytes)?;
                }
                2 => {
                    let other = build_and_write(&BuilderConfig::minimal("another-package"))?;
                    pkg.metadata.signature = other.pkg.metadata.signature.clone();
                }
                _ => {}
            }
            for (i, op) in case.ops.iter().enumerate() {
                apply_op(&mut pkg, op)?;
                // (a failed signing attempt rewrites nothing)
                if !matches!(op, Op::Reparse | Op::SignFail(_)) {
                    stale = false;
                }
                if stale {
                    continue;
                }
                let bytes = write_pkg(&pkg)?;
                check_digests(&bytes, &b.files, &format!("after op #{i} {op:?}{}", if case.stale_sig != 0 { " on a package whose signature header was stale" } else { "" }))?;
            }
            Ok(())
        })();
        if let Err((c, d)) = r {
            o.fail(&c, d);
        }
        o
    }
}


fn check_dup(cfg: &BuilderConfig, n: u8, spell: bool) -> Outcome {
    let mut o = Outcome::new();
    o.label("destination-given-twice");
    let mut cfg = cfg.clone();
    let i = n as usize % cfg.files.len();
    let mut second = cfg.files[i].clone();
    if spell {
        second.dot_style = !second.dot_style;
        o.label("second-spelling-differs");
    }
    second.content.seed = second.content.seed.wrapping_add(0x9e37_79b9);
    second.content.size = second.content.size + 1 + (n as u32 % 7);
    if second.content.kind == 0 {
        second.content.kind = 1;
    }
    cfg.files.push(second);
    o.nontrivial_key(fnv1a(serde_json::to_string(&(&cfg, n, spell)).unwrap_or_default().as_bytes()));
    let built = match panics::catch(|| crate::gen::builder::build(&cfg)) {
        Ok(b) => b,
        Err(p) => {
            o.fail("build-panic", p);
            return o;
        }
    };
    let pkg = match built.result {
        Ok(p) => p,
        Err(_) => {
            // refusing the second file is a legitimate answer
            o.label("duplicate-refused");
            return o;
        }
    };
    let r = write_pkg(&pkg).and_then(|bytes| check_digests(&bytes, &[], "destination given twice"));
    if let Err((c, d)) = r {
        o.fail(&c, d);
    }
    o
}
