//! C03 - digest verification succeeds exactly when all recorded digests match.

use crate::engine::*;
use crate::gen::filepkg;
use crate::refimpl::digests;
use crate::refimpl::fmt::{self, Val};
use crate::refimpl::tags;
use proptest::prelude::*;
use serde::{Deserialize, Serialize};
use std::sync::Arc;

pub struct C03 {
    flip_bases: Vec<Vec<u8>>,
}

#[derive(Serialize, Deserialize, Clone, Debug, PartialEq)]
pub enum Dk {
    Correct,
    /// one character/byte at this (scaled) position replaced
    Flip(u16),
    Truncated,
    Extended,
    /// digest of the wrong byte range (header vs header+payload vs payload)
    OtherBytes,
}

#[derive(Serialize, Deserialize, Clone, Debug)]
pub enum C03Case {
    Constructed {
        #[serde(with = "crate::engine::hexser")]
        payload: Vec<u8>,
        name: String,
        md5: Option<Dk>,
        sha1: Option<Dk>,
        sha256: Option<Dk>,
        /// (digest kind, algorithm number)
        payload_digest: Option<(Dk, u32)>,
        /// sort keys permuting the index records of both headers (empty = ascending tags)
        #[serde(default)]
        order: Vec<u16>,
        /// extra items appended to the PAYLOADDIGEST array: true = the correct digest, false = a wrong one
        #[serde(default)]
        extra_payload_digests: Vec<bool>,
        /// size tags in the signature header: 0 none, 1 SIZE, 2 LONGSIZE, 3 both - stating the
        /// size of header + payload as it was BEFORE `trailing` was appended; 4/5 = SIZE/LONGSIZE
        /// stating one byte less than there is
        #[serde(default)]
        size_tags: u8,
        /// bytes appended to the file after all digests were computed (they are payload bytes)
        #[serde(default, with = "crate::engine::hexser")]
        trailing: Vec<u8>,
        /// PAYLOADDIGESTALGO carries 1 + algo_repeat (equal) items
        #[serde(default)]
        algo_repeat: u8,
        /// number of trailing main-header records left outside the region (header digests cover
        /// the whole header, not just the region)
        #[serde(default)]
        dribbles: u8,
    },
    /// one bit of hand-encoded base package `base` flipped
    BitFlip { base: u8, bit: u32 },
}

fn mangle_hex(correct: String, other: String, k: &Dk) -> String {
    match k {
        Dk::Correct => correct,
        Dk::Flip(pos) => {
            let mut b = correct.into_bytes();
            let i = (*pos as usize * b.len()) >> 16;
            b[i] = if b[i] == b'0' { b'1' } else { b'0' };
            String::from_utf8(b).unwrap()
        }
        Dk::Truncated => correct[..correct.len() - 1].to_string(),
        Dk::Extended => format!("{correct}0"),
        Dk::OtherBytes => other,
    }
}

fn mangle_bin(correct: Vec<u8>, other: Vec<u8>, k: &Dk) -> Vec<u8> {
    match k {
        Dk::Correct => correct,
        Dk::Flip(pos) => {
            let mut b = correct;
            let i = (*pos as usize * b.len()) >> 16;
            b[i] ^= 1 << (pos % 8);
            b
        }
        Dk::Truncated => correct[..correct.len() - 1].to_vec(),
        Dk::Extended => {
            let mut b = correct;
            b.push(0);
            b
        }
        Dk::OtherBytes => other,
    }
}

fn permute(v: &mut Vec<(u32, Val)>, order: &[u16], salt: usize) {
    if order.is_empty() {
        return;
    }
    let mut keyed: Vec<(u16, usize, (u32, Val))> = v.drain(..).enumerate().map(|(i, e)| (order[(i + salt) % order.len()], i, e)).collect();
    keyed.sort_by_key(|k| (k.0, k.1));
    v.extend(keyed.into_iter().map(|k| k.2));
}

fn construct(payload: &[u8], name: &str, md5: &Option<Dk>, sha1: &Option<Dk>, sha256: &Option<Dk>, pd: &Option<(Dk, u32)>, order: &[u16]) -> Vec<u8> {
    construct_multi(payload, name, md5, sha1, sha256, pd, order, &[])
}

#[allow(clippy::too_many_arguments)]
fn construct_multi(payload: &[u8], name: &str, md5: &Option<Dk>, sha1: &Option<Dk>, sha256: &Option<Dk>, pd: &Option<(Dk, u32)>, order: &[u16], extra: &[bool]) -> Vec<u8> {
    construct_full(payload, name, md5, sha1, sha256, pd, order, extra, 0, &[], 0, 0)
}

#[allow(clippy::too_many_arguments)]
fn construct_full(payload: &[u8], name: &str, md5: &Option<Dk>, sha1: &Option<Dk>, sha256: &Option<Dk>, pd: &Option<(Dk, u32)>, order: &[u16], extra: &[bool], size_tags: u8, trailing: &[u8], algo_repeat: u8, dribbles: u8) -> Vec<u8> {
    let mut main = filepkg::basic_entries(name);
    if let Some((k, algo)) = pd {
        let correct = digests::sha256_hex(&[payload]);
        let other = digests::sha256_hex(&[b"not the payload", payload]);
        let mut items = vec![mangle_hex(correct.clone(), other.clone(), k)];
        for e in extra {
            items.push(if *e { correct.clone() } else { other.clone() });
        }
        let refs: Vec<&str> = items.iter().map(|s| s.as_str()).collect();
        main.push((tags::PAYLOADDIGEST, Val::sa(&refs)));
        main.push((tags::PAYLOADDIGESTALGO, Val::Int32(vec![*algo; 1 + (algo_repeat % 3) as usize])));
    }
    main.sort_by_key(|e| e.0);
    permute(&mut main, order, 3);
    let hdr = fmt::layout_with_dribbles(&main, Some(fmt::TAG_HEADERIMMUTABLE), dribbles as usize);
    let hb = hdr.bytes();
    let mut sig = vec![];
    if let Some(k) = sha1 {
        sig.push((tags::SIG_SHA1, Val::s(&mangle_hex(digests::sha1_hex(&[&hb]), digests::sha1_hex(&[&hb, payload]), k))));
    }
    if let Some(k) = sha256 {
        sig.push((tags::SIG_SHA256, Val::s(&mangle_hex(digests::sha256_hex(&[&hb]), digests::sha256_hex(&[payload]), k))));
    }
    if let Some(k) = md5 {
        sig.push((tags::SIG_MD5, Val::Bin(mangle_bin(digests::md5_raw(&[&hb, payload]), digests::md5_raw(&[&hb]), k))));
    }
    let total = (hb.len() + payload.len()) as u64;
    match size_tags {
        1 | 3 => sig.push((tags::SIG_SIZE, Val::Int32(vec![total as u32]))),
        4 => sig.push((tags::SIG_SIZE, Val::Int32(vec![total.saturating_sub(1) as u32]))),
        _ => {}
    }
    match size_tags {
        2 | 3 => sig.push((tags::SIG_LONGSIZE, Val::Int64(vec![total]))),
        5 => sig.push((tags::SIG_LONGSIZE, Val::Int64(vec![total.saturating_sub(1)]))),
        _ => {}
    }
    sig.sort_by_key(|e| e.0);
    permute(&mut sig, order, 0);
    let sigh = fmt::layout(&sig, Some(fmt::TAG_HEADERSIGNATURES));
    let pad = vec![0u8; fmt::sig_padding(sigh.dl)];
    let mut all = payload.to_vec();
    all.extend_from_slice(trailing);
    fmt::RawPackage { lead: fmt::default_lead(name), sig: sigh, sig_pad: pad, hdr, payload: all }.encode()
}

#[derive(Debug, PartialEq)]
pub enum Expect {
    Ok,
    Mismatch,
    /// unsupported/unknown payload digest algorithm: any error
    AnyErr,
    /// what "recorded" means is ambiguous here; no assertion
    Skip(&'static str),
}

/// expectation recomputed independently from the bytes (R2 + R5)
pub fn expectation(bytes: &[u8]) -> Expect {
    let Ok(seg) = fmt::decode(bytes) else { return Expect::Skip("undecodable") };
    let hb = fmt::normalized_header_bytes(bytes, &seg.hdr);
    let payload = &bytes[seg.payload_start..];
    let mut mismatch = false;
    for t in [tags::SIG_MD5, tags::SIG_SHA1, tags::SIG_SHA256] {
        if seg.sig.count_tag(t) > 1 {
            return Expect::Skip("duplicate digest tag");
        }
    }
    for t in [tags::PAYLOADDIGEST, tags::PAYLOADDIGESTALGO] {
        if seg.hdr.count_tag(t) > 1 {
            return Expect::Skip("duplicate digest tag");
        }
    }
    if let Some(e) = seg.sig.find(tags::SIG_MD5) {
        match fmt::decode_entry(seg.sig.store(bytes), e) {
            Some(Val::Bin(d)) => mismatch |= d != digests::md5_raw(&[&hb, payload]),
            _ => return Expect::Skip("digest tag of unexpected type"),
        }
    }
    if let Some(e) = seg.sig.find(tags::SIG_SHA1) {
        match fmt::decode_entry(seg.sig.store(bytes), e) {
            Some(Val::Str(d)) => mismatch |= d != digests::sha1_hex(&[&hb]).as_bytes(),
            _ => return Expect::Skip("digest tag of unexpected type"),
        }
    }
    if let Some(e) = seg.sig.find(tags::SIG_SHA256) {
        match fmt::decode_entry(seg.sig.store(bytes), e) {
            Some(Val::Str(d)) => mismatch |= d != digests::sha256_hex(&[&hb]).as_bytes(),
            _ => return Expect::Skip("digest tag of unexpected type"),
        }
    }
    let pd = seg.hdr.find(tags::PAYLOADDIGEST);
    let pa = seg.hdr.find(tags::PAYLOADDIGESTALGO);
    let mut bad_algo = false;
    match (pd, pa) {
        (None, None) => {}
        (Some(d), Some(a)) => {
            let dv = fmt::decode_entry(seg.hdr.store(bytes), d);
            let av = fmt::decode_entry(seg.hdr.store(bytes), a);
            match (dv, av) {
                (Some(Val::StrArray(items)), Some(Val::Int32(algo))) if !items.is_empty() && !algo.is_empty() && algo.iter().all(|a| *a == algo[0]) => {
                    if algo[0] != 8 {
                        bad_algo = true;
                    } else {
                        let want = digests::sha256_hex(&[payload]);
                        let first_ok = items[0].0 == want.as_bytes();
                        let rest_ok = items[1..].iter().all(|i| i.0 == want.as_bytes());
                        if first_ok && !rest_ok {
                            // "the recorded digest" (first item) matches, a further item does not:
                            // whether that is a mismatch is not settled by the statement
                            return Expect::Skip("later PAYLOADDIGEST item differs");
                        }
                        mismatch |= !first_ok;
                    }
                }
                _ => return Expect::Skip("payload digest of unexpected type/count"),
            }
        }
        _ => return Expect::Skip("payload digest without algorithm or vice versa"),
    }
    // a PAYLOADDIGESTALGO entry with several (equal) items is unusual: failure has to be
    // reported when something does not match, but success is not demanded of it
    let multi_algo = matches!(pa.and_then(|a| fmt::decode_entry(seg.hdr.store(bytes), a)), Some(Val::Int32(v)) if v.len() > 1);
    if bad_algo {
        Expect::AnyErr
    } else if mismatch {
        Expect::Mismatch
    } else if multi_algo {
        Expect::Skip("multi-item digest algorithm, everything matches")
    } else {
        Expect::Ok
    }
}

fn dk() -> BoxedStrategy<Dk> {
    prop_oneof![5 => Just(Dk::Correct), 2 => any::<u16>().prop_map(Dk::Flip), 1 => Just(Dk::Truncated), 1 => Just(Dk::Extended), 1 => Just(Dk::OtherBytes)].boxed()
}

impl Property for C03 {
    type Case = C03Case;
    const ID: &'static str = "C03";
    fn new(_t: Tier) -> Self {
        // two hand-encoded packages carrying all four digests
        let b0 = construct(b"payload-bytes", "flipbase", &Some(Dk::Correct), &Some(Dk::Correct), &Some(Dk::Correct), &Some((Dk::Correct, 8)), &[]);
        let b1 = construct(&[], "e", &Some(Dk::Correct), &Some(Dk::Correct), &Some(Dk::Correct), &Some((Dk::Correct, 8)), &[]);
        // a third base whose index records are in descending tag order
        let b2 = construct(b"p", "unsorted", &Some(Dk::Correct), &Some(Dk::Correct), &Some(Dk::Correct), &Some((Dk::Correct, 8)), &[9, 8, 7, 6, 5, 4, 3, 2, 1, 0]);
        C03 { flip_bases: vec![b0, b1, b2] }
    }
    fn rule(&self) -> String {
        "constructive: hand-encoded packages with every subset of {MD5, SHA1, SHA256, PAYLOADDIGEST+ALGO}, each digest correct / one position changed / truncated / extended / digest of the wrong byte range, algorithm 8, other known or unknown; index records in ascending or permuted order; plus EVERY single-bit flip of three hand-encoded packages carrying all four digests (one with descending index order), with the expectation recomputed from the mutant by the reference decoder. Non-trivial = at least one digest tag present; distinct by hash of the package bytes.".into()
    }
    fn assumptions(&self) -> Vec<String> {
        vec![
            "digests are only generated in their standard tags with their proper types; mutants with duplicated digest tags, digest tags of another type or PAYLOADDIGEST without PAYLOADDIGESTALGO are counted and skipped (what 'recorded' means there is not settled)".into(),
            "hex case-insensitivity is not asserted".into(),
        ]
    }
    fn required_labels(&self, _t: Tier) -> Vec<&'static str> {
        vec!["records-outside-region", "multi-item-digest-algo", "size-tag-smaller-than-file", "multi-item-payload-digest", "permuted-index", "expect-ok", "expect-mismatch", "expect-anyerr", "only-md5-wrong", "only-sha1-wrong", "only-sha256-wrong", "only-payload-wrong", "algo-known-unsupported", "algo-unknown", "bitflip"]
    }
    fn phases(&self, tier: Tier) -> Vec<Phase<C03Case>> {
        let bits: Vec<(u8, u32)> = self.flip_bases.iter().enumerate().flat_map(|(i, b)| (0..b.len() as u32 * 8).map(move |bit| (i as u8, bit))).collect();
        let bits = Arc::new(bits);
        let b2 = bits.clone();
        vec![
            Phase::Enumerate { name: "every-bit-flip", total: bits.len() as u64, exhaustive: true, gen: Arc::new(move |i| b2.get(i as usize).map(|(base, bit)| C03Case::BitFlip { base: *base, bit: *bit })) },
            Phase::Random {
                name: "constructed",
                cases: tier.pick(400_000, 40_000_000),
                strat: Arc::new(|| {
                    let algo = prop_oneof![6 => Just(8u32), 2 => proptest::sample::select(vec![1u32, 9, 10, 11, 12, 14]), 2 => proptest::sample::select(vec![0u32, 2, 3, 7, 13, 255, u32::MAX]), 1 => any::<u32>()];
                    (proptest::collection::vec(any::<u8>(), 0..40), "[a-z]{1,8}", proptest::option::weighted(0.6, dk()), proptest::option::weighted(0.6, dk()), proptest::option::weighted(0.7, dk()), proptest::option::weighted(0.6, (dk(), algo)), prop_oneof![2 => Just(vec![]), 1 => proptest::collection::vec(any::<u16>(), 12)], prop_oneof![4 => Just(vec![]), 1 => proptest::collection::vec(any::<bool>(), 1..3)], (prop_oneof![3 => Just(0u8), 2 => 1u8..6], prop_oneof![3 => Just(vec![]), 1 => proptest::collection::vec(any::<u8>(), 1..9)], prop_oneof![4 => Just(0u8), 1 => 1u8..3], prop_oneof![3 => Just(0u8), 1 => 1u8..4]))
                        .prop_map(|(payload, name, md5, sha1, sha256, payload_digest, order, extra_payload_digests, (size_tags, trailing, algo_repeat, dribbles))| C03Case::Constructed { payload, name, md5, sha1, sha256, payload_digest, order, extra_payload_digests, size_tags, trailing, algo_repeat, dribbles })
                        .boxed()
                }),
            },
        ]
    }
    fn check(&self, case: &C03Case) -> Outcome {
        let mut o = Outcome::new();
        let bytes = match case {
            C03Case::Constructed { payload, name, md5, sha1, sha256, payload_digest, order, extra_payload_digests, size_tags, trailing, algo_repeat, dribbles } => {
                if *dribbles > 0 {
                    o.label("records-outside-region");
                }
                if *algo_repeat % 3 != 0 && payload_digest.is_some() {
                    o.label("multi-item-digest-algo");
                }
                if *size_tags != 0 {
                    o.label("size-tag");
                    if !trailing.is_empty() || *size_tags > 3 {
                        o.label("size-tag-smaller-than-file");
                    }
                }
                if !extra_payload_digests.is_empty() && payload_digest.is_some() {
                    o.label("multi-item-payload-digest");
                }
                if !order.is_empty() {
                    o.label("permuted-index");
                }
                let wrong = |k: &Option<Dk>| matches!(k, Some(x) if *x != Dk::Correct);
                let pdw = matches!(payload_digest, Some((x, 8)) if *x != Dk::Correct);
                let n_wrong = [wrong(md5), wrong(sha1), wrong(sha256), pdw].iter().filter(|b| **b).count();
                let algo_ok = !matches!(payload_digest, Some((_, a)) if *a != 8);
                if n_wrong == 1 && algo_ok && trailing.is_empty() {
                    o.label(if wrong(md5) { "only-md5-wrong" } else if wrong(sha1) { "only-sha1-wrong" } else if wrong(sha256) { "only-sha256-wrong" } else { "only-payload-wrong" });
                }
                if let Some((_, a)) = payload_digest {
                    if [1u32, 9, 10, 11, 12, 14].contains(a) {
                        o.label("algo-known-unsupported");
                    } else if *a != 8 {
                        o.label("algo-unknown");
                    }
                }
                construct_full(payload, name, md5, sha1, sha256, payload_digest, order, extra_payload_digests, *size_tags, trailing, *algo_repeat, *dribbles)
            }
            C03Case::BitFlip { base, bit } => {
                o.label("bitflip");
                let mut b = self.flip_bases[*base as usize % self.flip_bases.len()].clone();
                let i = (*bit / 8) as usize % b.len();
                b[i] ^= 1 << (bit % 8);
                b
            }
        };
        let exp = expectation(&bytes);
        let p = match panics::catch(|| super::common::with_source(&bytes, fnv1a(&bytes) >> 9, |mut r| rpm::Package::parse(&mut r))) {
            Ok(Ok(p)) => p,
            Ok(Err(_)) => {
                o.label("unparseable");
                return o;
            }
            Err(_) => {
                o.label("crashed");
                return o;
            }
        };
        let got = panics::catch(|| p.verify_digests());
        match &exp {
            Expect::Skip(why) => {
                o.label(format!("skipped: {why}"));
                return o;
            }
            Expect::Ok => o.label("expect-ok"),
            Expect::Mismatch => o.label("expect-mismatch"),
            Expect::AnyErr => o.label("expect-anyerr"),
        }
        if let Ok(seg) = fmt::decode(&bytes) {
            let any = [tags::SIG_MD5, tags::SIG_SHA1, tags::SIG_SHA256].iter().any(|t| seg.sig.find(*t).is_some()) || seg.hdr.find(tags::PAYLOADDIGEST).is_some();
            if any {
                o.nontrivial_key(fnv1a(&bytes));
            }
        }
        match (exp, got) {
            (_, Err(pn)) => o.fail("verify-panic", format!("verify_digests panicked ('an error, never success' - and never a crash): {pn}")),
            (Expect::Ok, Ok(Ok(()))) => {}
            (Expect::Ok, Ok(Err(e))) => o.fail("rejects-matching", format!("all recorded digests match but verify_digests returned: {e}")),
            (Expect::Mismatch, Ok(Err(rpm::Error::DigestMismatchError))) => {}
            (Expect::Mismatch, Ok(Ok(()))) => o.fail("accepts-mismatch", "a recorded digest differs from the recomputed one but verify_digests returned Ok"),
            (Expect::Mismatch, Ok(Err(e))) => o.fail("wrong-error", format!("digest mismatch reported as a different error: {e}")),
            (Expect::AnyErr, Ok(Ok(()))) => o.fail("accepts-unsupported-algo", "payload digest with an unsupported/unknown algorithm but verify_digests returned Ok"),
            (Expect::AnyErr, Ok(Err(_))) => {}
            (Expect::Skip(_), _) => {}
        }
        o
    }
}
