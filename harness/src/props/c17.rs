//! C17 - the builder rejects bad arguments with errors, not panics.

use super::c07::iterate;
use crate::engine::*;
use crate::gen::builder::*;
use crate::refimpl::caps::{self, Verdict};
use proptest::prelude::*;
use serde::{Deserialize, Serialize};
use std::sync::Arc;

pub struct C17;

#[derive(Serialize, Deserialize, Clone, Debug)]
pub enum C17Case {
    Dest(String),
    /// several files with these destinations in ONE package
    Dests(Vec<String>),
    /// the source file's modification time, seconds relative to 1970 (before 1970 / after 2106
    /// cannot be represented in a package: an error, not a panic)
    SrcMtime(i64),
    Caps(String),
    /// kind: 2 gzip, 3 zstd, 4 xz, 5 bzip2
    Level { kind: u8, level: i64 },
    /// field: 0 name 1 version 2 license 3 arch 4 summary 5 release 6 description 7 vendor 8 url
    /// 9 vcs 10 packager 11 group 12 cookie 13 build_host 14 scriptlet body 15 changelog 16 dependency
    /// 17 user 18 group-owner 19 symlink target
    Meta { field: u8, value: String },
    /// numeric setters: 0 raw file mode (i32), 1 epoch, 2 scriptlet flag bits, 3 changelog time,
    /// 4 source date, 5 file verify flag bits, 6 dependency flag bits via a raw mode of a dir
    Num { field: u8, value: i64 },
}

const DEST_TOKENS: [&str; 5] = ["/", ".", "..", "a", "b"];
const SRC_MTIMES: [i64; 16] = [0, 1, -1, -2, -86_400, -2_147_483_648, -2_147_483_649, -30_000_000_000, 2_147_483_647, 2_147_483_648, 4_294_967_295, 4_294_967_296, 4_294_967_297, 8_589_934_592, 253_402_300_799, 1_000_000_000];

/// i-th of the 39 paths of depth 1..3 over the components {a, b, m}
fn small_path(mut i: u64) -> String {
    const C: [&str; 3] = ["a", "b", "m"];
    for depth in 1..=3u32 {
        let n = 3u64.pow(depth);
        if i < n {
            let mut s = String::new();
            for _ in 0..depth {
                s.push('/');
                s.push_str(C[(i % 3) as usize]);
                i /= 3;
            }
            return s;
        }
        i -= n;
    }
    "/a".into()
}

fn dest_string(mut i: u64, maxlen: u32) -> Option<String> {
    for len in 0..=maxlen {
        let n = 5u64.pow(len);
        if i < n {
            let mut s = String::new();
            for _ in 0..len {
                s.push_str(DEST_TOKENS[(i % 5) as usize]);
                i /= 5;
            }
            return Some(s);
        }
        i -= n;
    }
    None
}

const LEVELS: [i64; 24] = [0, 1, 2, 3, 4, 5, 6, 7, 8, 9, 10, 11, 12, 19, 22, 23, 100, 1000, i32::MAX as i64, u32::MAX as i64, -1, -7, -131072, i32::MIN as i64];

fn with_one_file<T>(f: impl FnOnce(&std::path::Path) -> T) -> T {
    let dir = TempDir::new("c17");
    let src = dir.0.join("src");
    std::fs::write(&src, b"seventeen bytes!!").expect("write source");
    f(&src)
}

fn build_and_readback(b: rpm::PackageBuilder, what: &str, expect_files: usize) -> Result<&'static str, (String, String)> {
    build_and_readback_n(b, what, expect_files, expect_files)
}

fn build_and_readback_n(b: rpm::PackageBuilder, what: &str, min_files: usize, max_files: usize) -> Result<&'static str, (String, String)> {
    match panics::catch(|| b.build()) {
        Err(p) => Err(("panic".into(), format!("{what}: build(): {p}"))),
        Ok(Err(_)) => Ok("build-err"),
        Ok(Ok(pkg)) => {
            // a successful build must give a readable package
            let mut w = Vec::new();
            match panics::catch(|| pkg.write(&mut w)) {
                Ok(Ok(())) => {}
                Ok(Err(e)) => return Err(("unreadable-result".into(), format!("{what}: build succeeded but write failed: {e}"))),
                Err(p) => return Err(("panic".into(), format!("{what}: write(): {p}"))),
            }
            let p = match panics::catch(|| rpm::Package::parse(&mut &w[..])) {
                Ok(Ok(p)) => p,
                Ok(Err(e)) => return Err(("unreadable-result".into(), format!("{what}: build succeeded but the package does not parse: {e}"))),
                Err(p) => return Err(("panic".into(), format!("{what}: parse(): {p}"))),
            };
            let files = iterate(&p).map_err(|(c, d)| (if c.contains("panic") { "panic".to_string() } else { "unreadable-result".to_string() }, format!("{what}: build succeeded but the payload cannot be read: {d}")))?;
            if files.len() < min_files || files.len() > max_files || files.iter().any(|f| f.content != b"seventeen bytes!!") {
                return Err(("unreadable-result".into(), format!("{what}: build succeeded but the payload does not give the file back")));
            }
            Ok("build-ok")
        }
    }
}

impl Property for C17 {
    type Case = C17Case;
    const ID: &'static str = "C17";
    const ISOLATED: bool = true;
    fn new(_t: Tier) -> Self {
        C17
    }
    fn rule(&self) -> String {
        format!("complete enumeration of all destination strings of up to 6 (quick) / 7 (thorough) tokens over {:?}, random destinations with other characters; source files modified before 1970, after 2106 and at the boundaries; all ordered pairs of 39 small valid paths and random sets of 2-5 destinations in one package; capability strings: all token strings up to 3 tokens of the C19 alphabet and random texts with letters whose UTF-8 length changes under case mapping; every compressor with levels {:?}; every metadata/file-option setter with arbitrary strings incl. interior NUL, empty and 64 KiB; numeric setters (raw file mode as i32, FileMode variants written out with unmasked permission fields, epoch, scriptlet flags, changelog time, source date, verify flags) with arbitrary integers. Each case runs in a worker process (encoders may abort). Non-trivial = the argument is outside the documented/valid domain (must-be-error destination, rejected caps, out-of-range level, string with NUL or > 4 KiB); distinct by case hash.", DEST_TOKENS, LEVELS)
    }
    fn assumptions(&self) -> Vec<String> {
        vec![
            "a destination 'cannot be split' when std::path::Path::parent() or file_name() of it is None".into(),
            "timestamps passed to source_date/add_changelog_entry are outside the property's quantifier".into(),
        ]
    }
    fn required_labels(&self, _t: Tier) -> Vec<&'static str> {
        vec!["several-destinations", "numeric-setter", "dest-must-err", "dest-ok", "caps-reject", "caps-accept", "level-in-range", "level-out-of-range", "meta-nul", "build-ok", "build-err-or-with-file-err"]
    }
    fn phases(&self, tier: Tier) -> Vec<Phase<C17Case>> {
        let maxlen = tier.pick(6, 7) as u32;
        let total_d: u64 = (0..=maxlen).map(|l| 5u64.pow(l)).sum();
        let ncaps = super::c19::total_strings(3);
        vec![
            Phase::Enumerate { name: "all-destinations", total: total_d, exhaustive: true, gen: Arc::new(move |i| dest_string(i, maxlen).map(C17Case::Dest)) },
            // two valid destinations in one package: ALL ordered pairs of the 39 paths of depth
            // 1..3 over {a, b, m} (siblings, nesting, a directory next to a file of a name that
            // sorts before/after it, the same path twice)
            Phase::Enumerate {
                name: "all-destination-pairs",
                total: 39 * 39,
                exhaustive: true,
                gen: Arc::new(|i| if i < 39 * 39 { Some(C17Case::Dests(vec![small_path(i % 39), small_path(i / 39)])) } else { None }),
            },
            Phase::Random {
                name: "destination-sets",
                cases: tier.pick(3_000, 100_000),
                strat: Arc::new(|| {
                    let comp = prop_oneof![4 => proptest::sample::select(vec!["a", "b", "m", "lib", "run.sh", "conf.d", "z", "A", "a.b", "a-b", "0"]).prop_map(|s| s.to_string()), 1 => "[a-z.é ]{1,4}"];
                    let path = (prop_oneof![3 => Just("/"), 1 => Just("./")], proptest::collection::vec(comp, 1..5)).prop_map(|(p, c)| format!("{p}{}", c.join("/")));
                    proptest::collection::vec(path, 2..6).prop_map(C17Case::Dests).boxed()
                }),
            },
            Phase::Enumerate {
                name: "source-mtimes",
                total: SRC_MTIMES.len() as u64,
                exhaustive: true,
                gen: Arc::new(|i| SRC_MTIMES.get(i as usize).map(|t| C17Case::SrcMtime(*t))),
            },
            Phase::Random { name: "caps-unicode-case-mapping", cases: tier.pick(10_000, 200_000), strat: Arc::new(|| super::c19::unicode_caps().prop_map(C17Case::Caps).boxed()) },
            Phase::Enumerate { name: "caps-strings", total: ncaps, exhaustive: true, gen: Arc::new(|i| super::c19::token_string(i, 3).map(C17Case::Caps)) },
            Phase::Enumerate {
                name: "levels",
                total: 4 * LEVELS.len() as u64,
                exhaustive: true,
                gen: Arc::new(|i| Some(C17Case::Level { kind: 2 + (i % 4) as u8, level: LEVELS[(i / 4) as usize % LEVELS.len()] })),
            },
            Phase::Random {
                name: "random-destinations",
                cases: tier.pick(20_000, 400_000),
                strat: Arc::new(|| prop_oneof![3 => "(\\./|/|\\.\\./|[a-z]/)?([a-z.é ]{0,4}/){0,4}[a-z.é ]{0,4}/?", 1 => any::<String>(), 1 => "[/.]{0,8}"].prop_map(C17Case::Dest).boxed()),
            },
            Phase::Random {
                name: "numeric-setters",
                cases: tier.pick(6_000, 120_000),
                strat: Arc::new(|| {
                    (0u8..9, prop_oneof![3 => any::<u32>().prop_map(|v| v as i64), 2 => any::<i32>().prop_map(|v| v as i64), 3 => 0i64..0o200000, 1 => proptest::sample::select(vec![0i64, -1, 1, 0o100644, 0o040755, 0o120777, 0o010644, 0o060000, 65535, 65536, -32768, -32769, u32::MAX as i64, i32::MIN as i64])])
                        .prop_map(|(field, value)| C17Case::Num { field, value })
                        .boxed()
                }),
            },
            Phase::Random {
                name: "setter-strings",
                cases: tier.pick(8_000, 160_000),
                strat: Arc::new(|| {
                    (0u8..20, prop_oneof![4 => gstr(), 2 => "[a-z]{0,4}\\x00[a-z]{0,4}", 1 => any::<String>(), 1 => Just("x".repeat(65536)), 1 => Just(String::new())])
                        .prop_map(|(field, value)| C17Case::Meta { field, value })
                        .boxed()
                }),
            },
        ]
    }
    fn check(&self, case: &C17Case) -> Outcome {
        let mut o = Outcome::new();
        if let Err((c, d)) = inner(case, &mut o) {
            o.fail(&c, d);
        }
        o
    }
}

fn inner(case: &C17Case, o: &mut Outcome) -> Result<(), (String, String)> {
    let base = || rpm::PackageBuilder::new("c17", "1.0", "MIT", "noarch", "argument checks").compression(rpm::CompressionWithLevel::Gzip(1));
    match case {
        C17Case::Dest(d) => {
            let p = std::path::Path::new(d);
            let must_err = !(d.starts_with('/') || d.starts_with("./")) || p.parent().is_none() || p.file_name().is_none();
            if must_err {
                o.label("dest-must-err");
                o.nontrivial_key(fnv1a(d.as_bytes()));
            }
            with_one_file(|src| {
                let r = panics::catch(|| base().with_file(src, rpm::FileOptions::new(d.clone())));
                match r {
                    Err(pn) => Err(("panic".into(), format!("with_file(dest {d:?}): {pn}"))),
                    Ok(Err(_)) => {
                        o.label("build-err-or-with-file-err");
                        Ok(())
                    }
                    Ok(Ok(b)) => {
                        if must_err {
                            return Err(("bad-destination-accepted".into(), format!("destination {d:?} cannot be split into a directory and a file name (or does not start with / or ./) but with_file accepted it")));
                        }
                        o.label("dest-ok");
                        o.label(build_and_readback(b, &format!("dest {d:?}"), 1)?);
                        Ok(())
                    }
                }
            })
        }
        C17Case::Dests(ds) => {
            o.label("several-destinations");
            with_one_file(|src| {
                let mut b = base();
                for d in ds {
                    b = match panics::catch(move || b.with_file(src, rpm::FileOptions::new(d.clone()))) {
                        Err(pn) => return Err(("panic".into(), format!("with_file(dest {d:?}) as one of {ds:?}: {pn}"))),
                        Ok(Err(_)) => {
                            o.label("build-err-or-with-file-err");
                            return Ok(());
                        }
                        Ok(Ok(b)) => b,
                    };
                }
                // the same path given twice may replace the earlier file or be refused
                o.label(build_and_readback_n(b, &format!("destinations {ds:?}"), 1, ds.len())?);
                Ok(())
            })
        }
        C17Case::SrcMtime(t) => {
            o.label("source-mtime");
            let representable = (0..=u32::MAX as i64).contains(t);
            if !representable {
                o.nontrivial_key(*t as u64);
            }
            with_one_file(|src| {
                let when = if *t >= 0 { std::time::UNIX_EPOCH + std::time::Duration::from_secs(*t as u64) } else { std::time::UNIX_EPOCH - std::time::Duration::from_secs(t.unsigned_abs()) };
                let set = std::fs::OpenOptions::new().write(true).open(src).and_then(|f| f.set_modified(when));
                let seen = std::fs::metadata(src).and_then(|m| m.modified());
                if set.is_err() || seen.ok() != Some(when) {
                    // the file system cannot store this time
                    o.label("source-mtime-not-settable");
                    return Ok(());
                }
                match panics::catch(|| base().with_file(src, rpm::FileOptions::new("/f"))) {
                    Err(pn) => Err(("panic".into(), format!("with_file(source modified at {t}s): {pn}"))),
                    Ok(Err(_)) => {
                        o.label("build-err-or-with-file-err");
                        Ok(())
                    }
                    Ok(Ok(b)) => {
                        o.label(build_and_readback(b, &format!("source modified at {t}s"), 1)?);
                        Ok(())
                    }
                }
            })
        }
        C17Case::Caps(c) => {
            let v = caps::judge(c);
            let r = panics::catch(|| rpm::FileOptions::new("/f").caps(c.clone()).map(|_| ()));
            match (v, r) {
                (_, Err(pn)) => Err(("panic".into(), format!("caps({c:?}): {pn}"))),
                (Verdict::Reject, Ok(Ok(()))) => Err(("bad-caps-accepted".into(), format!("capability text {c:?} accepted"))),
                (Verdict::Reject, Ok(Err(e))) => {
                    o.label("caps-reject");
                    o.nontrivial_key(fnv1a(c.as_bytes()));
                    let _ = e;
                    Ok(())
                }
                (Verdict::Accept, Ok(Err(e))) => Err(("good-caps-rejected".into(), format!("capability text {c:?} rejected: {e}"))),
                (Verdict::Accept, Ok(Ok(()))) => {
                    o.label("caps-accept");
                    // and a package carrying it builds
                    with_one_file(|src| {
                        let b = match panics::catch(|| base().with_file(src, rpm::FileOptions::new("/f").caps(c.clone()).unwrap())) {
                            Ok(Ok(b)) => b,
                            Ok(Err(e)) => return Err(("unreadable-result".to_string(), format!("with_file with accepted caps {c:?}: {e}"))),
                            Err(pn) => return Err(("panic".to_string(), pn)),
                        };
                        o.label(build_and_readback(b, &format!("caps {c:?}"), 1)?);
                        Ok(())
                    })
                }
                (Verdict::Unspecified, _) => Ok(()),
            }
        }
        C17Case::Level { kind, level } => {
            let in_range = match kind {
                2 | 4 => (0..=9).contains(level),
                3 => (1..=22).contains(level),
                _ => (1..=9).contains(level),
            };
            o.label(if in_range { "level-in-range" } else { "level-out-of-range" });
            if !in_range {
                o.nontrivial_key(fnv1a(format!("{kind}/{level}").as_bytes()));
            }
            let c = match kind {
                2 => rpm::CompressionWithLevel::Gzip(*level as u32),
                3 => rpm::CompressionWithLevel::Zstd(*level as i32),
                4 => rpm::CompressionWithLevel::Xz(*level as u32),
                _ => rpm::CompressionWithLevel::Bzip2(*level as u32),
            };
            with_one_file(|src| {
                let b = match panics::catch(|| base().compression(c).with_file(src, rpm::FileOptions::new("/f"))) {
                    Ok(Ok(b)) => b,
                    Ok(Err(_)) => return Ok(()),
                    Err(pn) => return Err(("panic".to_string(), format!("{c:?}: {pn}"))),
                };
                let r = build_and_readback(b, &format!("compression {c:?}"), 1)?;
                if in_range && r != "build-ok" {
                    return Err(("documented-level-refused".into(), format!("{c:?} is inside the documented range but build() failed")));
                }
                o.label(if r == "build-ok" { "build-ok" } else { "build-err-or-with-file-err" });
                Ok(())
            })
        }
        C17Case::Num { field, value } => {
            o.label("numeric-setter");
            o.nontrivial_key(fnv1a(format!("{field}/{value}").as_bytes()));
            let v = *value;
            with_one_file(|src| {
                let r = panics::catch(|| -> Result<rpm::PackageBuilder, rpm::Error> {
                    let mut b = base();
                    let mut fo = rpm::FileOptions::new("/f");
                    match field {
                        0 => fo = fo.mode(v as i32),
                        1 => b = b.epoch(v as u32),
                        2 => b = b.pre_install_script(rpm::Scriptlet::new("true").flags(rpm::ScriptletFlags::from_bits_retain(v as u32))),
                        3 => b = b.add_changelog_entry("a", "b", v as u32),
                        4 => b = b.source_date(v as u32),
                        5 => fo = fo.verify(rpm::FileVerifyFlags::from_bits_retain(v as u32)),
                        // the enum's fields are public: variants written out with unmasked fields
                        6 => fo = fo.mode(rpm::FileMode::Regular { permissions: v as u16 }),
                        7 => fo = fo.mode(rpm::FileMode::Dir { permissions: v as u16 }),
                        _ => fo = fo.mode(rpm::FileMode::SymbolicLink { permissions: v as u16 }),
                    }
                    b.with_file(src, fo)
                });
                match r {
                    Err(pn) => Err(("panic".into(), format!("numeric setter #{field} with {v}: {pn}"))),
                    Ok(Err(_)) => Ok(()),
                    Ok(Ok(b)) => {
                        o.label(build_and_readback(b, &format!("numeric setter #{field} = {v}"), 1)?);
                        Ok(())
                    }
                }
            })
        }
        C17Case::Meta { field, value } => {
            if value.contains('\0') {
                o.label("meta-nul");
            }
            if value.contains('\0') || value.len() > 4096 {
                o.nontrivial_key(fnv1a(format!("{field}/{value}").as_bytes()));
            }
            let v = value.clone();
            with_one_file(|src| {
                let r = panics::catch(|| -> Result<rpm::PackageBuilder, rpm::Error> {
                    let mut b = match field {
                        0 => rpm::PackageBuilder::new(&v, "1.0", "MIT", "noarch", "s"),
                        1 => rpm::PackageBuilder::new("n", &v, "MIT", "noarch", "s"),
                        2 => rpm::PackageBuilder::new("n", "1.0", &v, "noarch", "s"),
                        3 => rpm::PackageBuilder::new("n", "1.0", "MIT", &v, "s"),
                        4 => rpm::PackageBuilder::new("n", "1.0", "MIT", "noarch", &v),
                        _ => rpm::PackageBuilder::new("n", "1.0", "MIT", "noarch", "s"),
                    }
                    .compression(rpm::CompressionWithLevel::Gzip(1));
                    let mut fo = rpm::FileOptions::new("/f");
                    b = match field {
                        5 => b.release(v.clone()),
                        6 => b.description(v.clone()),
                        7 => b.vendor(v.clone()),
                        8 => b.url(v.clone()),
                        9 => b.vcs(v.clone()),
                        10 => b.packager(v.clone()),
                        11 => b.group(v.clone()),
                        12 => b.cookie(&v),
                        13 => b.build_host(&v),
                        14 => b.pre_install_script(rpm::Scriptlet::new(v.clone()).prog(vec![v.clone()])),
                        15 => b.add_changelog_entry(&v, &v, 1u32),
                        16 => b.requires(rpm::Dependency::eq(v.clone(), v.clone())).provides(rpm::Dependency::user(&v)),
                        _ => b,
                    };
                    fo = match field {
                        17 => fo.user(v.clone()),
                        18 => fo.group(v.clone()),
                        19 => fo.symlink(v.clone()),
                        _ => fo,
                    };
                    b.with_file(src, fo)
                });
                match r {
                    Err(pn) => Err(("panic".into(), format!("setter #{field} with {:?}: {pn}", value.chars().take(40).collect::<String>()))),
                    Ok(Err(_)) => Ok(()),
                    Ok(Ok(b)) => {
                        o.label(build_and_readback(b, &format!("setter #{field}"), 1)?);
                        Ok(())
                    }
                }
            })
        }
    }
}
