//! C14 - serialisation does not depend on how the sink or source chunks I/O (fault enumeration).

use super::common::small_pool_indices;
use crate::engine::*;
use crate::gen::pool::pool;
use crate::refimpl::fmt;
use serde::{Deserialize, Serialize};
use std::io::{self, Read, Write};
use std::sync::Arc;

pub struct C14 {
    bases: Vec<u16>,
}

#[derive(Serialize, Deserialize, Clone, Debug, PartialEq)]
pub enum Chunk {
    One,
    Fixed(u16),
    Seeded(u64),
}

#[derive(Serialize, Deserialize, Clone, Debug)]
pub enum C14Case {
    /// write pool package `base` into a scripted sink
    Write {
        base: u16,
        metadata_only: bool,
        chunk: Chunk,
        interrupt_every: u8,
        fail_at: Option<u32>,
        /// the sink implements write_vectored itself (gathers up to one chunk across the buffers)
        #[serde(default)]
        vectored: bool,
        /// at `fail_at` the sink does not return an error but accepts 0 bytes (a full fixed-size
        /// buffer: `&mut [u8]`, `Cursor<&mut [u8]>`)
        #[serde(default)]
        zero_when_full: bool,
    },
    /// parse from a scripted source
    Read { base: u16, chunk: Chunk, interrupt_every: u8, bufcap: u16 },
    /// parse a package truncated at `at`
    Truncated { base: u16, at: u32 },
    /// parse from a BufRead whose buffer holds exactly the bytes [0, at) at first and afterwards
    /// `then` bytes at a time: every position of the first buffer boundary relative to the
    /// structure (end of a header, inside the signature padding, ...)
    ReadSplit { base: u16, at: u32, then: u16 },
}

struct Sink {
    zero_when_full: bool,
    zeros: u32,
    vectored: bool,
    /// refuse to grow beyond this many bytes (a writer that re-sends data must not exhaust memory)
    cap: usize,
    data: Vec<u8>,
    chunk: Chunk,
    state: u64,
    calls: u64,
    interrupt_every: u8,
    fail_at: Option<usize>,
    short_accepts: u64,
}

impl Sink {
    fn next_chunk(&mut self) -> usize {
        match self.chunk {
            Chunk::One => 1,
            Chunk::Fixed(k) => k.max(1) as usize,
            Chunk::Seeded(_) => {
                self.state = splitmix64(self.state);
                1 + (self.state % 64) as usize
            }
        }
    }
}

impl Write for Sink {
    fn write(&mut self, buf: &[u8]) -> io::Result<usize> {
        self.calls += 1;
        if self.interrupt_every > 0 && self.calls % self.interrupt_every as u64 == 0 {
            return Err(io::Error::new(io::ErrorKind::Interrupted, "scripted interrupt"));
        }
        if buf.is_empty() {
            return Ok(0);
        }
        if self.data.len() > self.cap {
            return Err(io::Error::new(io::ErrorKind::Other, "sink full: far more bytes than the canonical form were written"));
        }
        let mut n = self.next_chunk().min(buf.len());
        if let Some(f) = self.fail_at {
            if self.data.len() >= f {
                if self.zero_when_full && self.zeros < 1000 {
                    self.zeros += 1;
                    return Ok(0);
                }
                return Err(io::Error::new(io::ErrorKind::Other, "scripted failure"));
            }
            n = n.min(f - self.data.len());
        }
        if n < buf.len() {
            self.short_accepts += 1;
        }
        self.data.extend_from_slice(&buf[..n]);
        Ok(n)
    }
    fn flush(&mut self) -> io::Result<()> {
        Ok(())
    }
    fn write_vectored(&mut self, bufs: &[io::IoSlice<'_>]) -> io::Result<usize> {
        if !self.vectored {
            // the default: the first non-empty buffer through write()
            let first = bufs.iter().find(|b| !b.is_empty()).map(|b| &**b).unwrap_or(&[][..]);
            return self.write(first);
        }
        self.calls += 1;
        if self.interrupt_every > 0 && self.calls % self.interrupt_every as u64 == 0 {
            return Err(io::Error::new(io::ErrorKind::Interrupted, "scripted interrupt"));
        }
        let total: usize = bufs.iter().map(|b| b.len()).sum();
        if total == 0 {
            return Ok(0);
        }
        if self.data.len() > self.cap {
            return Err(io::Error::new(io::ErrorKind::Other, "sink full: far more bytes than the canonical form were written"));
        }
        let mut n = self.next_chunk().min(total);
        if let Some(f) = self.fail_at {
            if self.data.len() >= f {
                if self.zero_when_full && self.zeros < 1000 {
                    self.zeros += 1;
                    return Ok(0);
                }
                return Err(io::Error::new(io::ErrorKind::Other, "scripted failure"));
            }
            n = n.min(f - self.data.len());
        }
        if n < total {
            self.short_accepts += 1;
        }
        let mut left = n;
        for b in bufs {
            let k = left.min(b.len());
            self.data.extend_from_slice(&b[..k]);
            left -= k;
            if left == 0 {
                break;
            }
        }
        Ok(n)
    }
}

struct Source<'a> {
    data: &'a [u8],
    pos: usize,
    chunk: Chunk,
    state: u64,
    calls: u64,
    interrupt_every: u8,
}

impl Read for Source<'_> {
    fn read(&mut self, buf: &mut [u8]) -> io::Result<usize> {
        self.calls += 1;
        if self.interrupt_every > 0 && self.calls % self.interrupt_every as u64 == 0 {
            return Err(io::Error::new(io::ErrorKind::Interrupted, "scripted interrupt"));
        }
        let c = match self.chunk {
            Chunk::One => 1,
            Chunk::Fixed(k) => k.max(1) as usize,
            Chunk::Seeded(_) => {
                self.state = splitmix64(self.state);
                1 + (self.state % 64) as usize
            }
        };
        let n = c.min(buf.len()).min(self.data.len() - self.pos);
        buf[..n].copy_from_slice(&self.data[self.pos..self.pos + n]);
        self.pos += n;
        Ok(n)
    }
}

/// (chunking, interrupt every n-th call, sink has its own write_vectored)
const FAMILIES: [(Chunk, u8, bool); 16] = [
    (Chunk::One, 0, false),
    (Chunk::One, 3, false),
    (Chunk::Fixed(2), 0, false),
    (Chunk::Fixed(3), 2, false),
    (Chunk::Fixed(5), 0, false),
    (Chunk::Fixed(16), 0, false),
    (Chunk::Fixed(17), 5, false),
    (Chunk::Seeded(1), 0, false),
    (Chunk::Seeded(2), 4, false),
    (Chunk::Fixed(4096), 0, false),
    (Chunk::One, 0, true),
    (Chunk::Fixed(17), 3, true),
    (Chunk::Fixed(100), 0, true),
    (Chunk::Fixed(300), 0, true),
    (Chunk::Fixed(1000), 7, true),
    (Chunk::Seeded(3), 0, true),
];

/// a BufRead with scripted buffer contents
struct SplitSource<'a> {
    data: &'a [u8],
    pos: usize,
    at: usize,
    then: usize,
}

impl SplitSource<'_> {
    fn window(&self) -> std::ops::Range<usize> {
        let end = if self.pos < self.at { self.at } else { self.pos + self.then.max(1) };
        self.pos..end.min(self.data.len())
    }
}

impl io::BufRead for SplitSource<'_> {
    fn fill_buf(&mut self) -> io::Result<&[u8]> {
        Ok(&self.data[self.window()])
    }
    fn consume(&mut self, n: usize) {
        // (a consume beyond the buffer is a caller bug; clamp like BufReader does)
        let w = self.window();
        self.pos += n.min(w.end - w.start);
    }
}

impl io::Read for SplitSource<'_> {
    fn read(&mut self, b: &mut [u8]) -> io::Result<usize> {
        let w = self.window();
        let n = b.len().min(w.end - w.start);
        b[..n].copy_from_slice(&self.data[w.start..w.start + n]);
        self.pos += n;
        Ok(n)
    }
}

impl Property for C14 {
    type Case = C14Case;
    const ID: &'static str = "C14";
    const LEVEL: &'static str = "fault_enumeration";
    fn new(tier: Tier) -> Self {
        // small packages: unsigned, signed, with files, asset-derived
        let mut bases = small_pool_indices(tier.pick(2_600, 9_000) as usize);
        bases.truncate(tier.pick(8, 20) as usize);
        C14 { bases }
    }
    fn rule(&self) -> String {
        format!("fault enumeration: for each of {} small pool packages (unsigned, signed, with files, hand-encoded, rpmbuild-made), Package::write and PackageMetadata::write into scripted sinks - EVERY failure offset 0..len crossed with 16 chunking families (1 byte, fixed 2/3/5/16/17/4096, seeded random 1..64 sequences, with and without interleaved Interrupted errors; six of them sinks with their own gathering write_vectored accepting 1/17/100/300/1000/random bytes per call), plus the no-failure run of each family; every offset again with four families of sinks that signal 'full' by accepting 0 bytes instead of failing; Package::parse from scripted sources (same families x BufReader capacities 1/7/64/8192) from BufReads whose first buffer ends at EVERY offset (then 1/9/4096 bytes at a time), and from EVERY truncation offset; plus three synthetic packages whose signature or main header exceeds 1 MiB (all read families, sampled write failure offsets and truncations), plus four hand-encoded packages whose main header store does not end with a region trailer (no region / a string stored behind the trailer / unreferenced trailing bytes / a trailing string array: EVERY truncation offset, EVERY first-buffer boundary, all read families). Non-trivial = a sink script with a short accept or a fault before the end / a source with short reads / a truncation; distinct by construction.", self.bases.len())
    }
    fn assumptions(&self) -> Vec<String> {
        vec!["canonical bytes = write into a Vec; the sinks obey the Write contract (accept >= 1 byte of a non-empty buffer unless they fail)".into()]
    }
    fn required_labels(&self, _t: Tier) -> Vec<&'static str> {
        vec!["first-buffer-boundary", "full-sink-accepts-zero", "header-over-1MiB", "store-without-trailing-region", "vectored-sink", "write-ok-short-accepts", "write-failed-at-offset", "read-chunked", "truncated-before-payload", "interrupted"]
    }
    fn phases(&self, _tier: Tier) -> Vec<Phase<C14Case>> {
        let bases = Arc::new(self.bases.clone());
        let mut writes: Vec<(u16, bool, u32)> = vec![]; // (base, metadata_only, len)
        let mut truncs: Vec<(u16, u32)> = vec![];
        for &b in bases.iter() {
            let bytes = &pool()[b as usize].bytes;
            let meta_len = fmt::decode(bytes).map(|s| s.payload_start).unwrap_or(bytes.len());
            writes.push((b, false, bytes.len() as u32));
            writes.push((b, true, meta_len as u32));
            for at in 0..bytes.len() as u32 {
                truncs.push((b, at));
            }
        }
        // index space of write cases: for each (base, meta) : (len + 2) fail points (None, 0..=len) x families
        let mut offsets = vec![0u64];
        for w in &writes {
            offsets.push(offsets.last().unwrap() + (w.2 as u64 + 2) * FAMILIES.len() as u64);
        }
        let total_w = *offsets.last().unwrap();
        let mut offsets_z = vec![0u64];
        for w in &writes {
            offsets_z.push(offsets_z.last().unwrap() + (w.2 as u64 + 1) * 4);
        }
        let offsets_z = Arc::new(offsets_z);
        let writes = Arc::new(writes);
        let writes_z = writes.clone();
        let offsets = Arc::new(offsets);
        let truncs = Arc::new(truncs);
        let nb = bases.len() as u64;
        let b2 = bases.clone();
        let t2 = truncs.clone();
        vec![
            Phase::Enumerate {
                name: "write-every-failure-offset",
                total: total_w,
                exhaustive: true,
                gen: Arc::new(move |i| {
                    let k = offsets.partition_point(|o| *o <= i) - 1;
                    let (base, metadata_only, _len) = writes[k];
                    let j = i - offsets[k];
                    let fam = (j % FAMILIES.len() as u64) as usize;
                    let f = j / FAMILIES.len() as u64;
                    let fail_at = if f == 0 { None } else { Some((f - 1) as u32) };
                    Some(C14Case::Write { base, metadata_only, chunk: FAMILIES[fam].0.clone(), interrupt_every: FAMILIES[fam].1, fail_at, vectored: FAMILIES[fam].2, zero_when_full: false })
                }),
            },
            // the same offsets with sinks that signal "full" by accepting 0 bytes
            Phase::Enumerate {
                name: "write-full-sink-accepts-zero",
                total: {
                    let o2 = offsets_z.clone();
                    *o2.last().unwrap()
                },
                exhaustive: true,
                gen: {
                    let offsets = offsets_z.clone();
                    let writes = writes_z.clone();
                    Arc::new(move |i| {
                        const ZF: [usize; 4] = [0, 6, 9, 13];
                        let k = offsets.partition_point(|o| *o <= i) - 1;
                        let (base, metadata_only, _len) = writes[k];
                        let j = i - offsets[k];
                        let fam = ZF[(j % 4) as usize];
                        let fail_at = Some((j / 4) as u32);
                        Some(C14Case::Write { base, metadata_only, chunk: FAMILIES[fam].0.clone(), interrupt_every: FAMILIES[fam].1, fail_at, vectored: FAMILIES[fam].2, zero_when_full: true })
                    })
                },
            },
            Phase::Enumerate {
                name: "read-chunked",
                total: nb * 10 * 4,
                exhaustive: true,
                gen: Arc::new(move |i| {
                    let base = b2[(i % nb) as usize];
                    let j = i / nb;
                    let fam = (j % 10) as usize;
                    let bufcap = [1u16, 7, 64, 8192][(j / 10) as usize % 4];
                    Some(C14Case::Read { base, chunk: FAMILIES[fam].0.clone(), interrupt_every: FAMILIES[fam].1, bufcap })
                }),
            },
            // packages whose header sections exceed 1 MiB: every read family x buffer capacity,
            // the no-failure run and 64 spread failure offsets of every write family, and
            // truncations at 4 KiB-spaced offsets plus the offsets around every 1 MiB multiple
            Phase::Enumerate {
                name: "big-headers",
                total: N_BIG as u64 * (10 * 4 + FAMILIES.len() as u64 * 65 + 400),
                exhaustive: false,
                gen: Arc::new(move |i| {
                    let per = 10 * 4 + FAMILIES.len() as u64 * 65 + 400;
                    let base = BIG_BASE + (i / per) as u16;
                    if base >= BIG_BASE + N_BIG {
                        return None;
                    }
                    let j = i % per;
                    let len = base_bytes(base).len() as u64;
                    if j < 40 {
                        let fam = (j % 10) as usize;
                        let bufcap = [1u16, 7, 64, 8192][(j / 10) as usize % 4];
                        return Some(C14Case::Read { base, chunk: FAMILIES[fam].0.clone(), interrupt_every: FAMILIES[fam].1, bufcap });
                    }
                    let j = j - 40;
                    if j < FAMILIES.len() as u64 * 65 {
                        let fam = (j % FAMILIES.len() as u64) as usize;
                        let f = j / FAMILIES.len() as u64;
                        // f = 0: no failure; 1..=64: failure offsets spread over the file, odd ones just past a MiB multiple
                        let fail_at = if f == 0 { None } else if f % 2 == 1 { Some((((f / 2) % (len >> 20).max(1) + 1) << 20) as u32 + (f as u32 % 5)) } else { Some((len * f / 65) as u32) };
                        // 1-byte chunk families are too slow for megabytes with interrupts; still included (bounded by file size)
                        return Some(C14Case::Write { base, metadata_only: f % 3 == 2, chunk: FAMILIES[fam].0.clone(), interrupt_every: FAMILIES[fam].1, fail_at, vectored: FAMILIES[fam].2, zero_when_full: false });
                    }
                    let j = j - FAMILIES.len() as u64 * 65;
                    let at = if j < 380 { j * len / 380 } else { let k = j - 380; ((k / 5 + 1) << 20) + (k % 5) - 2 };
                    Some(C14Case::Truncated { base, at: at.min(len) as u32 })
                }),
            },
            // headers whose store does not end with a region trailer: every truncation offset,
            // every first-buffer boundary, every read family x buffer capacity
            Phase::Enumerate {
                name: "regionless-headers",
                total: (0..N_RL).map(|k| base_bytes(BIG_BASE + N_BIG + k).len() as u64 * 2 + 40).sum(),
                exhaustive: true,
                gen: Arc::new(move |i| {
                    let mut j = i;
                    for k in 0..N_RL {
                        let base = BIG_BASE + N_BIG + k;
                        let len = base_bytes(base).len() as u64;
                        if j < len {
                            return Some(C14Case::Truncated { base, at: j as u32 });
                        }
                        j -= len;
                        if j < len {
                            return Some(C14Case::ReadSplit { base, at: j as u32, then: 1 });
                        }
                        j -= len;
                        if j < 40 {
                            let fam = (j % 10) as usize;
                            let bufcap = [1u16, 7, 64, 8192][(j / 10) as usize % 4];
                            return Some(C14Case::Read { base, chunk: FAMILIES[fam].0.clone(), interrupt_every: FAMILIES[fam].1, bufcap });
                        }
                        j -= 40;
                    }
                    None
                }),
            },
            Phase::Enumerate {
                name: "every-first-buffer-boundary",
                total: truncs.len() as u64 * 3,
                exhaustive: true,
                gen: {
                    let t3 = truncs.clone();
                    Arc::new(move |i| t3.get((i / 3) as usize).map(|(b, at)| C14Case::ReadSplit { base: *b, at: *at, then: [1u16, 9, 4096][(i % 3) as usize] }))
                },
            },
            Phase::Enumerate {
                name: "every-truncation",
                total: truncs.len() as u64,
                exhaustive: true,
                gen: Arc::new(move |i| t2.get(i as usize).map(|(b, at)| C14Case::Truncated { base: *b, at: *at })),
            },
        ]
    }
    fn check(&self, case: &C14Case) -> Outcome {
        let mut o = Outcome::new();
        o.nontrivial = 1;
        if let Err((c, d)) = inner(case, &mut o) {
            o.fail(&c, d);
        }
        o
    }
}

/// bases >= BIG_BASE are synthetic hand-encoded packages with a header section far larger than
/// any internal buffer: 0 = 1.25 MiB description in the main header, 1 = 1.1 MiB private blob in
/// the signature header, 2 = 3 MiB changelog array
const BIG_BASE: u16 = 60_000;
const N_BIG: u16 = 3;
/// bases BIG_BASE + N_BIG + k: small hand-encoded packages whose main header store does NOT end
/// with a region trailer (k = 0: no region at all, last store bytes belong to a STRING entry;
/// 1: region plus one string entry stored behind the trailer; 2: no region, three unreferenced
/// bytes at the end of the store; 3: no region, last entry a STRING_ARRAY)
const N_RL: u16 = 4;

fn base_bytes(base: u16) -> std::sync::Arc<Vec<u8>> {
    use std::sync::{Arc, OnceLock};
    if base < BIG_BASE {
        let p = pool();
        return Arc::new(p[base as usize % p.len()].bytes.clone());
    }
    static BIG: OnceLock<Vec<Arc<Vec<u8>>>> = OnceLock::new();
    let all = BIG.get_or_init(|| {
        use crate::refimpl::fmt::Val;
        use crate::refimpl::tags;
        let regionless = |k: u16| -> Arc<Vec<u8>> {
            let mut main = crate::gen::filepkg::basic_entries("rl");
            match k {
                3 => main.push((1_000_001, Val::sa(&["first", "second", "last item"]))),
                _ => main.push((1_000_000, Val::s("tail-string"))),
            }
            main.sort_by_key(|e| e.0);
            let mut raw = crate::gen::filepkg::wrap(main.clone(), b"07070100000000".to_vec(), false);
            raw.hdr = match k {
                1 => fmt::layout_with_dribbles(&main, Some(fmt::TAG_HEADERIMMUTABLE), 1),
                _ => fmt::layout(&main, None),
            };
            if k == 2 {
                raw.hdr.store.extend_from_slice(b"xyz");
                raw.hdr.dl += 3;
            }
            // digests over the header as laid out now
            let hb = raw.hdr.bytes();
            let mut sig_entries = vec![
                (tags::SIG_SHA1, Val::s(&crate::refimpl::digests::sha1_hex(&[&hb]))),
                (tags::SIG_SHA256, Val::s(&crate::refimpl::digests::sha256_hex(&[&hb]))),
                (tags::SIG_MD5, Val::Bin(crate::refimpl::digests::md5_raw(&[&hb, &raw.payload]))),
            ];
            sig_entries.sort_by_key(|e| e.0);
            raw.sig = fmt::layout(&sig_entries, Some(fmt::TAG_HEADERSIGNATURES));
            raw.sig_pad = vec![0u8; fmt::sig_padding(raw.sig.dl)];
            Arc::new(raw.encode())
        };
        let text = |n: usize, salt: u8| -> String { (0..n).map(|i| (b'a' + ((i as u64 * 2654435761 >> 7) as u8 ^ salt) % 26) as char).collect() };
        (0..N_BIG)
            .map(|k| {
                let mut main = crate::gen::filepkg::basic_entries("big");
                let mut sig_extra: Vec<(u32, Val)> = vec![];
                match k {
                    0 => {
                        main.retain(|e| e.0 != tags::DESCRIPTION);
                        main.push((tags::DESCRIPTION, Val::I18n(vec![crate::refimpl::fmt::HexBytes(text(1_310_720, 1).into_bytes())])));
                    }
                    1 => sig_extra.push((999_999, Val::Bin(text(1_153_434, 2).into_bytes()))),
                    _ => {
                        let n = 3000;
                        main.push((tags::CHANGELOGTIME, Val::Int32((0..n).map(|i| 1_000_000_000 + i).collect())));
                        main.push((tags::CHANGELOGNAME, Val::StrArray((0..n).map(|i| crate::refimpl::fmt::HexBytes(format!("author {i}").into_bytes())).collect())));
                        main.push((tags::CHANGELOGTEXT, Val::StrArray((0..n).map(|i| crate::refimpl::fmt::HexBytes(text(1000 + (i as usize % 7), i as u8).into_bytes())).collect())));
                    }
                }
                let mut raw = crate::gen::filepkg::wrap(main, b"07070100000000".to_vec(), true);
                if !sig_extra.is_empty() {
                    // re-lay the signature header with the extra entry
                    let bytes = raw.encode();
                    let seg = fmt::decode(&bytes).expect("own package decodes");
                    let mut entries: Vec<(u32, Val)> = seg.sig.entries.iter().filter(|e| e.tag >= 100).filter_map(|e| fmt::decode_entry(seg.sig.store(&bytes), e).map(|v| (e.tag, v))).collect();
                    entries.extend(sig_extra);
                    entries.sort_by_key(|e| e.0);
                    raw.sig = fmt::layout(&entries, Some(fmt::TAG_HEADERSIGNATURES));
                    raw.sig_pad = vec![0u8; fmt::sig_padding(raw.sig.dl)];
                }
                Arc::new(raw.encode())
            })
            .chain((0..N_RL).map(regionless))
            .collect()
    });
    all[(base - BIG_BASE) as usize % all.len()].clone()
}

fn inner(case: &C14Case, o: &mut Outcome) -> Result<(), (String, String)> {
    match case {
        C14Case::Write { base, metadata_only, chunk, interrupt_every, fail_at, vectored, zero_when_full } => {
            if *zero_when_full {
                o.label("full-sink-accepts-zero");
            }
            let bytes_arc = base_bytes(*base);
            let bytes: &Vec<u8> = &bytes_arc;
            if *base >= BIG_BASE {
                o.label(if *base < BIG_BASE + N_BIG { "header-over-1MiB" } else { "store-without-trailing-region" });
            }
            let pkg = rpm::Package::parse(&mut &bytes[..]).map_err(|e| ("harness-pool".to_string(), e.to_string()))?;
            let mut canonical = Vec::new();
            if *metadata_only {
                pkg.metadata.write(&mut canonical).map_err(|e| ("harness-pool".to_string(), e.to_string()))?;
            } else {
                pkg.write(&mut canonical).map_err(|e| ("harness-pool".to_string(), e.to_string()))?;
            }
            if *vectored {
                o.label("vectored-sink");
            }
            let mut sink = Sink { zero_when_full: *zero_when_full, zeros: 0, vectored: *vectored, cap: canonical.len() * 2 + 4096, data: vec![], chunk: chunk.clone(), state: if let Chunk::Seeded(s) = chunk { *s } else { 0 }, calls: 0, interrupt_every: *interrupt_every, fail_at: fail_at.map(|f| f as usize), short_accepts: 0 };
            let r = panics::catch(|| if *metadata_only { pkg.metadata.write(&mut sink) } else { pkg.write(&mut sink) });
            if *interrupt_every > 0 {
                o.label("interrupted");
            }
            let what = format!("{} into sink(chunk {:?}, interrupt every {}, fail at {:?}{})", if *metadata_only { "PackageMetadata::write" } else { "Package::write" }, chunk, interrupt_every, fail_at, if *vectored { ", own write_vectored" } else { "" }) + if *zero_when_full { " [the full sink accepts 0 bytes instead of failing]" } else { "" };
            match r {
                Err(pn) => return Err(("write-panic".into(), format!("{what}: {pn}"))),
                Ok(Ok(())) => {
                    if sink.short_accepts > 0 {
                        o.label("write-ok-short-accepts");
                    }
                    if sink.data != canonical {
                        return Err(("ok-but-incomplete".into(), format!("{what} returned Ok but the sink holds {} of {} canonical bytes ({})", sink.data.len(), canonical.len(), super::common::first_diff(&sink.data, &canonical))));
                    }
                }
                Ok(Err(_)) => {
                    o.label("write-failed-at-offset");
                    if !canonical.starts_with(&sink.data) {
                        return Err(("err-not-a-prefix".into(), format!("{what} returned an error and the sink does not hold a prefix of the canonical bytes ({})", super::common::first_diff(&sink.data, &canonical))));
                    }
                    if fail_at.is_none() {
                        return Err(("spurious-error".into(), format!("{what}: error although the sink never failed")));
                    }
                }
            }
        }
        C14Case::Read { base, chunk, interrupt_every, bufcap } => {
            o.label("read-chunked");
            if *interrupt_every > 0 {
                o.label("interrupted");
            }
            let bytes_arc = base_bytes(*base);
            let bytes: &Vec<u8> = &bytes_arc;
            if *base >= BIG_BASE {
                o.label(if *base < BIG_BASE + N_BIG { "header-over-1MiB" } else { "store-without-trailing-region" });
            }
            let want = rpm::Package::parse(&mut &bytes[..]).map_err(|e| ("harness-pool".to_string(), e.to_string()))?;
            let src = Source { data: bytes, pos: 0, chunk: chunk.clone(), state: if let Chunk::Seeded(s) = chunk { *s } else { 0 }, calls: 0, interrupt_every: *interrupt_every };
            let mut br = io::BufReader::with_capacity(*bufcap as usize, src);
            let got = panics::catch(|| rpm::Package::parse(&mut br));
            match got {
                Err(pn) => return Err(("read-panic".into(), pn)),
                Ok(Err(e)) => return Err(("chunked-read-differs".into(), format!("parse from a source with chunk {:?}/interrupts {}/buffer {} fails: {e}", chunk, interrupt_every, bufcap))),
                Ok(Ok(g)) => {
                    if g.metadata != want.metadata || g.content != want.content {
                        return Err(("chunked-read-differs".into(), format!("parse from a source with chunk {:?}/buffer {} gives a different package", chunk, bufcap)));
                    }
                }
            }
            // metadata only
            let src = Source { data: bytes, pos: 0, chunk: chunk.clone(), state: 7, calls: 0, interrupt_every: *interrupt_every };
            let mut br = io::BufReader::with_capacity(*bufcap as usize, src);
            match panics::catch(|| rpm::PackageMetadata::parse(&mut br)) {
                Ok(Ok(m)) if m == want.metadata => {}
                other => return Err(("chunked-read-differs".into(), format!("PackageMetadata::parse from a chunked source: {:?}", other.map(|r| r.map(|_| "different value").map_err(|e| e.to_string()))))),
            }
        }
        C14Case::ReadSplit { base, at, then } => {
            o.label("first-buffer-boundary");
            let bytes_arc = base_bytes(*base);
            let bytes: &Vec<u8> = &bytes_arc;
            let want = rpm::Package::parse(&mut &bytes[..]).map_err(|e| ("harness-pool".to_string(), e.to_string()))?;
            let mut src = SplitSource { data: bytes, pos: 0, at: (*at as usize).min(bytes.len()), then: *then as usize };
            match panics::catch(|| rpm::Package::parse(&mut src)) {
                Err(pn) => return Err(("read-panic".into(), pn)),
                Ok(Err(e)) => return Err(("chunked-read-differs".into(), format!("parse from a BufRead that holds bytes [0, {at}) first and then {then} bytes at a time fails: {e}"))),
                Ok(Ok(g)) => {
                    if g.metadata != want.metadata || g.content != want.content {
                        return Err(("chunked-read-differs".into(), format!("parse from a BufRead that holds bytes [0, {at}) first and then {then} bytes at a time gives a different package")));
                    }
                }
            }
            let mut src = SplitSource { data: bytes, pos: 0, at: (*at as usize).min(bytes.len()), then: *then as usize };
            match panics::catch(|| rpm::PackageMetadata::parse(&mut src)) {
                Ok(Ok(m)) if m == want.metadata => {}
                other => return Err(("chunked-read-differs".into(), format!("PackageMetadata::parse from a BufRead that holds bytes [0, {at}) first: {:?}", other.map(|r| r.map(|_| "different value").map_err(|e| e.to_string()))))),
            }
        }
        C14Case::Truncated { base, at } => {
            let bytes_arc = base_bytes(*base);
            let bytes: &Vec<u8> = &bytes_arc;
            if *base >= BIG_BASE {
                o.label(if *base < BIG_BASE + N_BIG { "header-over-1MiB" } else { "store-without-trailing-region" });
            }
            let payload_start = fmt::decode(bytes).map(|s| s.payload_start).map_err(|e| ("harness-pool".to_string(), e))?;
            let cut = &bytes[..(*at as usize).min(bytes.len())];
            let r = panics::catch(|| rpm::Package::parse(&mut &cut[..]));
            let rm = panics::catch(|| rpm::PackageMetadata::parse(&mut &cut[..]));
            if (*at as usize) < payload_start {
                o.label("truncated-before-payload");
                match (r, rm) {
                    (Ok(Err(_)), Ok(Err(_))) => {}
                    (Err(pn), _) | (_, Err(pn)) => return Err(("read-panic".into(), format!("truncated at {at}: {pn}"))),
                    _ => return Err(("truncated-accepted".into(), format!("input truncated at offset {at} (payload starts at {payload_start}) was accepted"))),
                }
            } else {
                o.label("truncated-in-payload");
                match r {
                    Ok(Ok(g)) if g.content == bytes[payload_start..*at as usize] => {}
                    Ok(Ok(_)) => return Err(("chunked-read-differs".into(), format!("truncated at {at}: content is not the truncated payload"))),
                    Ok(Err(_)) => {} // the statement only demands an error for truncation before the payload
                    Err(pn) => return Err(("read-panic".into(), pn)),
                }
            }
        }
    }
    Ok(())
}
