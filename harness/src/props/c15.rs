//! C15 - textual forms of EVR, NEVRA and compression type round-trip; parsing never panics.

use crate::engine::*;
use proptest::prelude::*;
use serde::{Deserialize, Serialize};
use std::str::FromStr;
use std::sync::Arc;

pub struct C15;

#[derive(Serialize, Deserialize, Clone, Debug)]
pub enum C15Case {
    Nevra { name: String, epoch: String, version: String, release: String, arch: String },
    Evr { epoch: String, version: String, release: String },
    Compression(u8),
    Arbitrary(String),
}

const ALPHA: [&str; 6] = ["a", "1", ".", "-", "b2", "_"];

/// i-th string (shortlex) over ALPHA restricted to symbols allowed by `ok`, lengths 1..=3
fn bounded(mut i: u64, allowed: &[&'static str]) -> Option<String> {
    let k = allowed.len() as u64;
    for len in 1..=3u32 {
        let n = k.pow(len);
        if i < n {
            let mut s = String::new();
            for _ in 0..len {
                s.push_str(allowed[(i % k) as usize]);
                i /= k;
            }
            return Some(s);
        }
        i -= n;
    }
    None
}

fn count_bounded(k: u64) -> u64 {
    k + k * k + k * k * k
}

pub const ASSET_NEVRAS: [(&str, &str, &str, &str, &str); 6] = [
    ("389-ds-base-devel", "", "1.3.8.4", "15.el7", "x86_64"),
    ("rpm-sign", "", "4.15.1", "1.fc31", "x86_64"),
    ("freesrp-udev", "", "0.3.0", "1.25", "x86_64"),
    ("rpm-empty", "", "0", "0", "x86_64"),
    ("ima_signed", "2", "1.0", "1", "noarch"),
    ("perl-Net-SSLeay", "0", "1.92", "5.fc38", "aarch64"),
];

impl Property for C15 {
    type Case = C15Case;
    const ID: &'static str = "C15";

    fn new(_t: Tier) -> Self {
        C15
    }
    fn rule(&self) -> String {
        "NEVRA tuples: complete enumeration of (name, version, release) over strings of length 1..3 from {a,1,.,-,b2,_} (names may contain '-' and '.', versions/releases no '-', arch no '.'/'-') crossed with epoch in {\"\",\"0\",\"7\"}; random tuples from the documented character sets; the asset NEVRAs; all five compression types; arbitrary strings (incl. only separators) for the no-panic part. Non-trivial = a name containing '-' or '.', or a release containing '.', or a non-empty epoch; distinct by tuple hash.".into()
    }
    fn assumptions(&self) -> Vec<String> {
        vec!["'component values a real package can carry': non-empty name/version/release/arch; '-' only inside names; ':' nowhere; '.' not inside arch".into()]
    }
    fn required_labels(&self, _t: Tier) -> Vec<&'static str> {
        vec!["nevra", "evr", "compression", "arbitrary", "name-with-dash", "name-with-dot", "release-with-dot", "epoch-empty", "epoch-set"]
    }
    fn phases(&self, tier: Tier) -> Vec<Phase<C15Case>> {
        let names: &'static [&'static str] = &["a", "1", ".", "-", "b2", "_"];
        let vers: &'static [&'static str] = &["a", "1", ".", "b2", "_"];
        let (kn, kv) = (count_bounded(6), count_bounded(5));
        let total = kn * kv * kv * 3;
        vec![
            Phase::Enumerate {
                name: "assets-and-compression",
                total: ASSET_NEVRAS.len() as u64 + 5,
                exhaustive: true,
                gen: Arc::new(|i| {
                    let i = i as usize;
                    Some(if i < 5 {
                        C15Case::Compression(i as u8)
                    } else {
                        let n = ASSET_NEVRAS[i - 5];
                        C15Case::Nevra { name: n.0.into(), epoch: n.1.into(), version: n.2.into(), release: n.3.into(), arch: n.4.into() }
                    })
                }),
            },
            Phase::Enumerate {
                name: "bounded-tuples",
                total,
                exhaustive: true,
                gen: Arc::new(move |mut i| {
                    let epoch = ["", "0", "7"][(i % 3) as usize];
                    i /= 3;
                    let release = bounded(i % kv, vers)?;
                    i /= kv;
                    let version = bounded(i % kv, vers)?;
                    i /= kv;
                    let name = bounded(i % kn, names)?;
                    // a name consisting only of separators is not a name a package can carry
                    if !name.chars().any(|c| c.is_ascii_alphanumeric()) || !name.starts_with(|c: char| c.is_ascii_alphanumeric()) {
                        return None;
                    }
                    Some(C15Case::Nevra { name, epoch: epoch.into(), version, release, arch: "x86_64".into() })
                }),
            },
            Phase::Random {
                name: "random-nevra",
                cases: tier.pick(500_000, 3_000_000),
                strat: Arc::new(|| {
                    // components of ordinary length and, now and then, long ones (module builds and
                    // snapshot releases: tens of characters per component, hundreds in total)
                    let comp = || prop_oneof![5 => "[A-Za-z0-9._+~^]{1,10}", 1 => "[A-Za-z0-9._+~^]{20,70}", 1 => "[0-9]{1,3}(\\.[0-9a-z+]{1,12}){3,12}"];
                    (prop_oneof![4 => "[a-z0-9][a-z0-9+._-]{0,12}", 1 => "[a-z0-9]{1,8}(-[a-z0-9.+_]{1,10}){1,6}"], prop_oneof![Just(String::new()), "[0-9]{1,4}", "[0-9]{5,12}"], comp(), comp(), prop_oneof![6 => "[a-z0-9_]{1,8}", 1 => "[a-z0-9_]{20,40}"])
                        .prop_map(|(name, epoch, version, release, arch)| C15Case::Nevra { name, epoch, version, release, arch })
                        .boxed()
                }),
            },
            Phase::Random {
                name: "random-evr",
                cases: tier.pick(200_000, 1_000_000),
                strat: Arc::new(|| {
                    (prop_oneof![Just(String::new()), "[0-9]{1,4}"], "[A-Za-z0-9._+~^]{1,10}", "[A-Za-z0-9._+~^]{1,10}")
                        .prop_map(|(epoch, version, release)| C15Case::Evr { epoch, version, release })
                        .boxed()
                }),
            },
            Phase::Random {
                name: "arbitrary-text",
                cases: tier.pick(300_000, 2_000_000),
                strat: Arc::new(|| prop_oneof![3 => "[:\\-.a1~^ ]{0,12}", 2 => any::<String>(), 1 => "[a-z]{0,6}"].prop_map(C15Case::Arbitrary).boxed()),
            },
        ]
    }

    fn extra(&self, tier: Tier, seed: u64) -> ExtraResult<C15Case> {
        let mut r = ExtraResult::default();
        if tier != Tier::Thorough {
            return r;
        }
        let seeds = vec![b"389-ds-base-devel\n\n1.3.8.4\n15.el7\nx86_64".to_vec(), b"foo\n10\n1.0\n1.fc38\nnoarch".to_vec(), b"a-1:2-3.x".to_vec()];
        let c = fuzz::run(&fuzz::Campaign { target: "fz_nevra", runs: 1_000_000, jobs: 8, max_len: 96, seeds }, seed);
        r.fields = c.fields;
        r.inconclusive = c.inconclusive;
        for a in c.artifacts {
            if let Ok(s) = String::from_utf8(a) {
                r.cases.push(C15Case::Arbitrary(s.clone()));
                let f: Vec<&str> = s.split('\n').collect();
                if f.len() >= 5 {
                    let keep = |x: &str, extra: &str| -> String { x.chars().filter(|c| c.is_ascii_alphanumeric() || extra.contains(*c)).collect() };
                    r.cases.push(C15Case::Nevra { name: keep(f[0], "+._-"), epoch: f[1].chars().filter(|c| c.is_ascii_digit()).take(6).collect(), version: keep(f[2], "._+~^"), release: keep(f[3], "._+~^"), arch: keep(f[4], "_") });
                }
            }
        }
        r
    }
    fn check(&self, case: &C15Case) -> Outcome {
        let mut o = Outcome::new();
        match panics::catch(|| inner(case, &mut o)) {
            Ok(Ok(())) => {}
            Ok(Err((c, d))) => o.fail(&c, d),
            Err(p) => o.fail("panic", p),
        }
        o
    }
}

fn inner(case: &C15Case, o: &mut Outcome) -> Result<(), (String, String)> {
    match case {
        C15Case::Nevra { name, epoch, version, release, arch } => {
            o.label("nevra");
            let mut nt = false;
            if name.contains('-') {
                o.label("name-with-dash");
                nt = true;
            }
            if name.contains('.') {
                o.label("name-with-dot");
                nt = true;
            }
            if release.contains('.') {
                o.label("release-with-dot");
                nt = true;
            }
            if epoch.is_empty() {
                o.label("epoch-empty");
            } else {
                o.label("epoch-set");
                nt = true;
            }
            if nt {
                o.nontrivial_key(fnv1a(format!("{name}\0{epoch}\0{version}\0{release}\0{arch}").as_bytes()));
            }
            // the oracle is applied to the value built from borrowed &str and to
            // the one built from owned Strings (both are "component values")
            let x = rpm::Nevra::new(name.as_str(), epoch.as_str(), version.as_str(), release.as_str(), arch.as_str());
            nevra_oracle(&x, "borrowed", name, epoch, version, release, arch)?;
            let owned = rpm::Nevra::new(name.clone(), epoch.clone(), version.clone(), release.clone(), arch.clone());
            nevra_oracle(&owned, "owned", name, epoch, version, release, arch)?;
            evr_oracle(&rpm::Evr::new(epoch.clone(), version.clone(), release.clone()), "owned", epoch, version, release)?;
            // the EVR inside
            evr_roundtrip(epoch, version, release)?;
        }
        C15Case::Evr { epoch, version, release } => {
            o.label("evr");
            o.nontrivial_key(fnv1a(format!("{epoch}\0{version}\0{release}").as_bytes()));
            evr_roundtrip(epoch, version, release)?;
        }
        C15Case::Compression(i) => {
            o.label("compression");
            o.nontrivial_key(*i as u64);
            let t = [rpm::CompressionType::None, rpm::CompressionType::Gzip, rpm::CompressionType::Zstd, rpm::CompressionType::Xz, rpm::CompressionType::Bzip2][*i as usize % 5];
            let text = t.to_string();
            match rpm::CompressionType::from_str(&text) {
                Ok(b) if b == t => {}
                other => return Err(("compression-roundtrip".into(), format!("{t:?} prints as {text:?} which parses to {:?}", other.map_err(|e| e.to_string())))),
            }
        }
        C15Case::Arbitrary(s) => {
            o.label("arbitrary");
            o.nontrivial_key(fnv1a(s.as_bytes()));
            let n = rpm::Nevra::parse(s);
            let _ = n.to_string();
            let _ = n.as_normalized_form();
            let _ = n.nvra();
            let e = rpm::Evr::parse(s);
            let _ = e.to_string();
            let _ = e.as_normalized_form();
            let _ = rpm::CompressionType::from_str(s);
            let _ = rpm::rpm_evr_compare(s, "1:1-1");
        }
    }
    Ok(())
}

fn nevra_oracle(x: &rpm::Nevra<'_>, how: &str, name: &str, epoch: &str, version: &str, release: &str, arch: &str) -> Result<(), (String, String)> {
    if x.values() != (name, epoch, version, release, arch) {
        return Err(("nevra-roundtrip".into(), format!("({how}) accessors give {:?} for components {:?}", x.values(), (name, epoch, version, release, arch))));
    }
    let text = x.to_string();
    // a width that the whole text already fills cannot change what a Display impl prints
    let w = text.chars().count();
    let padded = [format!("{x:<w$}"), format!("{x:>w$}"), format!("{x:^w$}"), format!("{x:1}")];
    if let Some(p) = padded.iter().find(|p| **p != text) {
        return Err(("nevra-roundtrip".into(), format!("({how}) prints as {text:?} but as {p:?} under a width that the text already fills")));
    }
    let back = rpm::Nevra::parse(&text);
    if back.values() != x.values() {
        return Err(("nevra-roundtrip".into(), format!("({how}) {:?} prints as {:?} which parses to {:?}", x.values(), text, back.values())));
    }
    if back != *x {
        return Err(("nevra-roundtrip".into(), format!("({how}) parse({text:?}) != original")));
    }
    let norm = x.as_normalized_form();
    let want_epoch = if epoch.is_empty() { "0" } else { epoch };
    if !norm.contains(&format!("{want_epoch}:")) {
        return Err(("normalized-epoch".into(), format!("({how}) normalised form {norm:?} carries no epoch")));
    }
    let nb = rpm::Nevra::parse(&norm);
    if nb != *x || (nb.epoch() != epoch && nb.epoch() != "0") {
        return Err(("normalized-roundtrip".into(), format!("({how}) normalised form {norm:?} parses to {:?}, original {:?}", nb.values(), x.values())));
    }
    let (n2, _, v2, r2, a2) = nb.values();
    if (n2, v2, r2, a2) != (name, version, release, arch) {
        return Err(("normalized-roundtrip".into(), format!("({how}) normalised form {norm:?} parses to {:?}", nb.values())));
    }
    Ok(())
}

fn evr_roundtrip(epoch: &str, version: &str, release: &str) -> Result<(), (String, String)> {
    let e = rpm::Evr::new(epoch, version, release);
    evr_oracle(&e, "borrowed", epoch, version, release)
}

fn evr_oracle(e: &rpm::Evr<'_>, how: &str, epoch: &str, version: &str, release: &str) -> Result<(), (String, String)> {
    let text = e.to_string();
    let w = text.chars().count();
    let padded = [format!("{e:<w$}"), format!("{e:>w$}"), format!("{e:1}")];
    if let Some(p) = padded.iter().find(|p| **p != text) {
        return Err(("evr-roundtrip".into(), format!("({how}) prints as {text:?} but as {p:?} under a width that the text already fills")));
    }
    let back = rpm::Evr::parse(&text);
    if back.values() != e.values() || back != *e {
        return Err(("evr-roundtrip".into(), format!("({how}) {:?} prints as {:?} which parses to {:?}", e.values(), text, back.values())));
    }
    let norm = e.as_normalized_form();
    let want_epoch = if epoch.is_empty() { "0" } else { epoch };
    if !norm.starts_with(&format!("{want_epoch}:")) {
        return Err(("normalized-epoch".into(), format!("({how}) normalised EVR {norm:?} does not start with the epoch")));
    }
    let nb = rpm::Evr::parse(&norm);
    if nb != *e || nb.version() != version || nb.release() != release || (nb.epoch() != epoch && nb.epoch() != "0") {
        return Err(("normalized-roundtrip".into(), format!("({how}) normalised EVR {norm:?} parses to {:?}", nb.values())));
    }
    Ok(())
}
