//! C11 - builds with a source date are reproducible and clamped.

use super::built::*;
use crate::engine::*;
use crate::gen::builder::*;
use crate::refimpl::fmt;
use crate::refimpl::tags;
use proptest::prelude::*;
use serde::{Deserialize, Serialize};
use std::io::Write;
use std::sync::Arc;

pub struct C11;

#[derive(Serialize, Deserialize, Clone, Debug)]
pub struct C11Case(pub BuilderConfig);

/// `vcheck build-bytes`: read a configuration from stdin, write the package bytes to stdout
pub fn build_bytes_main() -> i32 {
    if let Ok(u) = std::env::var("VCHECK_UMASK") {
        if let Ok(m) = u32::from_str_radix(&u, 8) {
            unsafe {
                libc::umask(m as libc::mode_t);
            }
        }
    }
    let mut s = String::new();
    if std::io::Read::read_to_string(&mut std::io::stdin(), &mut s).is_err() {
        return 3;
    }
    let Ok(cfg) = serde_json::from_str::<BuilderConfig>(&s) else { return 3 };
    match build_and_write(&cfg) {
        Ok(b) => {
            let _ = std::io::stdout().write_all(&b.bytes);
            0
        }
        Err((c, d)) => {
            eprintln!("{c}: {d}");
            4
        }
    }
}

fn build_in_child(cfg: &BuilderConfig, variant: usize) -> Result<Vec<u8>, (String, String)> {
    let exe = std::env::current_exe().map_err(|e| ("harness-io".to_string(), e.to_string()))?;
    let (tz, cwd, lang, home, umask) = [("UTC", "/", "C", "/root", "022"), ("Asia/Kathmandu", "/tmp", "de_DE.UTF-8", "/nonexistent", "077"), ("America/St_Johns", "/usr", "tr_TR.UTF-8", "/tmp", "000")][variant % 3];
    let mut child = std::process::Command::new(exe)
        .arg("build-bytes")
        .env("TZ", tz)
        .env("LANG", lang)
        .env("LC_ALL", lang)
        .env("HOME", home)
        .env("USER", format!("user{variant}"))
        .env("HOSTNAME", format!("host{variant}"))
        .env("VCHECK_UMASK", umask)
        // environment conventions of other build tools must not override the source date the
        // caller passed to the builder: absent / far future / epoch
        .envs([("SOURCE_DATE_EPOCH", "4102444800"), ("SOURCE_DATE_EPOCH", "0")].into_iter().skip(variant % 3).take(if variant % 3 == 0 { 0 } else { 1 }))
        .env("VCHECK_SCRATCH", crate::engine::worker::scratch_dir())
        .current_dir(cwd)
        .stdin(std::process::Stdio::piped())
        .stdout(std::process::Stdio::piped())
        .stderr(std::process::Stdio::piped())
        .spawn()
        .map_err(|e| ("harness-io".to_string(), e.to_string()))?;
    let js = serde_json::to_vec(cfg).unwrap();
    child.stdin.take().unwrap().write_all(&js).map_err(|e| ("harness-io".to_string(), e.to_string()))?;
    let out = child.wait_with_output().map_err(|e| ("harness-io".to_string(), e.to_string()))?;
    if !out.status.success() {
        return Err(("build-failed".into(), format!("child build failed: {}", String::from_utf8_lossy(&out.stderr))));
    }
    Ok(out.stdout)
}

fn signature_times(bytes: &[u8], seg: &fmt::Segments) -> Vec<i64> {
    use base64::Engine;
    let mut blobs: Vec<Vec<u8>> = vec![];
    if let Some(v) = fmt::get_str_array(bytes, &seg.sig, tags::SIG_OPENPGP) {
        for s in v {
            if let Ok(b) = base64::engine::general_purpose::STANDARD.decode(s.as_bytes()) {
                blobs.push(b);
            }
        }
    }
    for t in [tags::SIG_RSA, tags::SIG_DSA, tags::SIG_PGP, tags::SIG_GPG] {
        if let Some(fmt::Val::Bin(b)) = fmt::get_val(bytes, &seg.sig, t) {
            blobs.push(b);
        }
    }
    let mut times = vec![];
    for b in blobs {
        for p in pgp::packet::PacketParser::new(&b[..]).flatten() {
            if let pgp::packet::Packet::Signature(s) = p {
                if let Some(t) = s.created() {
                    times.push(t.timestamp());
                }
            }
        }
    }
    times
}

impl Property for C11 {
    type Case = C11Case;
    const ID: &'static str = "C11";
    fn new(_t: Tier) -> Self {
        C11
    }
    fn rule(&self) -> String {
        "builder configurations with a source date in the past, up to 5 distinct non-root users and groups, file mtimes on both sides of the source date (a second to 2^31 seconds and more after it, up to 2106), unsigned or signed with a deterministic key (RSA PKCS#1, Ed25519, ECDSA/RFC6979); each configuration is built 3 times sequentially and 3 times concurrently (threads) in this process and 3 times in freshly started child processes with different TZ, working directory, LANG/LC_ALL, HOME, USER, HOSTNAME, SOURCE_DATE_EPOCH (unset / 2100 / 0) and umask (hence also different hash seeds). Non-trivial = at least 2 distinct non-root owners or a signer; distinct by configuration hash.".into()
    }
    fn assumptions(&self) -> Vec<String> {
        vec![
            "the 'recent-source-date' phase reads the wall clock to place the source date one or two seconds in the past of a process that has used the builder before; on a correct tree the verdict does not depend on the clock".into(),
            "schedules are varied through per-process/per-instance hash seeds, TZ and cwd - the only nondeterminism sources found by reading; a dependence on the time of day without a source date is outside the statement".into(),
        ]
    }
    fn required_labels(&self, _t: Tier) -> Vec<&'static str> {
        vec!["source-date-set-after-files", "recent-source-date", "multi-owner", "signed", "source-date-zoned", "mtime-after-source-date", "mtime-before-source-date"]
    }
    fn phases(&self, tier: Tier) -> Vec<Phase<C11Case>> {
        vec![
            Phase::Enumerate {
                name: "recent-source-date",
                total: 6,
                exhaustive: false,
                gen: Arc::new(|i| {
                    let mut c = BuilderConfig::minimal("recent");
                    c.source_date = Some(1);
                    c.source_date_secs_ago = Some(1 + (i % 2) as u32);
                    c.signer = if i >= 3 { Some(2) } else { None };
                    c.compression = Comp { kind: 2, level: Some(1) };
                    Some(C11Case(c))
                }),
            },
            Phase::Random {
            name: "rebuilds",
            cases: tier.pick(480, 60_000),
            strat: Arc::new(|| {
                (config_any(CfgParams { max_files: 8, sizes: size_small(), comp: comp_fast(), sign_prob: 0.3, file_kinds: true, force_large_prob: 0.05, rich_meta: true }), prop_oneof![6 => 1_000_000_000u32..1_700_000_000, 1 => proptest::sample::select(vec![1u32, 1000, 86_400, 500_000_000, 999_999_999])], any::<u64>())
                    .prop_map(|(mut cfg, sd, salt)| {
                        cfg.source_date = Some(sd);
                        cfg.setters_last = salt % 2 == 1;
                        // a third of the cases pass the same instant as a zoned chrono DateTime
                        cfg.source_date_zone = match salt % 9 {
                            0 => Some(7200),
                            1 => Some(-34200),
                            2 => Some(20700),
                            _ => None,
                        };
                        if cfg.signer == Some(1) {
                            cfg.signer = Some(0);
                        }
                        // spread owners: 80% of the cases get distinct non-root users and groups
                        if salt % 5 != 0 {
                            let names = ["alice", "bob", "carol", "dave", "eve"];
                            for (i, f) in cfg.files.iter_mut().enumerate() {
                                f.user = Some(names[(i + salt as usize) % 5].to_string());
                                f.group = Some(names[(i * 3 + (salt >> 8) as usize) % 5].to_string());
                            }
                        }
                        // mtimes on both sides of the source date
                        for (i, f) in cfg.files.iter_mut().enumerate() {
                            f.mtime = if (salt >> i) & 1 == 0 { sd.saturating_sub(1 + (salt % 100_000) as u32) } else { sd + 1 + (salt % 100_000) as u32 };
                            // ... and, now and then, decades after it (2^31 s and more; up to 2106)
                            if (salt >> (16 + 2 * i)) & 3 == 3 {
                                let far = [sd as u64 + (1 << 31) - 1, sd as u64 + (1 << 31), sd as u64 + (1 << 31) + 1 + salt % 1000, sd as u64 + 3_000_000_000, u32::MAX as u64 - 1, u32::MAX as u64][(salt >> 40) as usize % 6];
                                f.mtime = far.min(u32::MAX as u64) as u32;
                            }
                        }
                        C11Case(cfg)
                    })
                    .boxed()
            }),
        }]
    }
    fn check(&self, case: &C11Case) -> Outcome {
        let mut o = Outcome::new();
        // "recent source date": resolve "n seconds ago" now, in a process that has been using the
        // builder for a while (a long-lived build service), so that the source date lies between
        // the first use of the builder in this process and the present
        let resolved;
        let cfg = if let Some(ago) = case.0.source_date_secs_ago {
            static WARM: std::sync::OnceLock<std::time::Instant> = std::sync::OnceLock::new();
            let t0 = *WARM.get_or_init(|| {
                let _ = build_and_write(&BuilderConfig::minimal("warm-up"));
                std::time::Instant::now()
            });
            let need = std::time::Duration::from_millis(ago as u64 * 1000 + 1200);
            if t0.elapsed() < need {
                std::thread::sleep(need - t0.elapsed());
            }
            let now = std::time::SystemTime::now().duration_since(std::time::UNIX_EPOCH).map(|d| d.as_secs() as u32).unwrap_or(0);
            let mut c = case.0.clone();
            c.source_date = Some(now.saturating_sub(ago));
            for f in c.files.iter_mut() {
                f.mtime = now.saturating_sub(ago + 1000 * u32::from(f.mtime % 2 == 0));
            }
            o.label("recent-source-date");
            resolved = c;
            &resolved
        } else {
            &case.0
        };
        let sd = cfg.source_date.unwrap_or(0);
        let mut owners = std::collections::BTreeSet::new();
        for f in &cfg.files {
            for x in [&f.user, &f.group].into_iter().flatten() {
                if x != "root" {
                    owners.insert(x.clone());
                }
            }
            o.label(if f.mtime > sd { "mtime-after-source-date" } else { "mtime-before-source-date" });
        }
        if owners.len() >= 2 {
            o.label("multi-owner");
        }
        if cfg.signer.is_some() {
            o.label("signed");
        }
        if cfg.source_date_zone.is_some() {
            o.label("source-date-zoned");
        }
        if cfg.setters_last && !cfg.files.is_empty() {
            o.label("source-date-set-after-files");
        }
        if owners.len() >= 2 || cfg.signer.is_some() {
            o.nontrivial_key(fnv1a(serde_json::to_string(cfg).unwrap_or_default().as_bytes()));
        }
        let r = (|| -> Result<(), (String, String)> {
            let first = build_and_write(cfg)?.bytes;
            // the zone in which the source date is expressed must not matter
            if cfg.source_date_zone.is_some() {
                let mut plain = cfg.clone();
                plain.source_date_zone = None;
                let other = build_and_write(&plain)?.bytes;
                if other != first {
                    return Err(("not-reproducible".into(), format!("the same source date given as a zoned DateTime and as plain seconds gives different packages: {}", super::common::first_diff(&other, &first))));
                }
            }
            for i in 1..3 {
                let again = build_and_write(cfg)?.bytes;
                if again != first {
                    return Err(("not-reproducible".into(), format!("in-process rebuild #{i} differs: {}", super::common::first_diff(&again, &first))));
                }
            }
            // three builds racing in threads of this process
            let racing: Vec<Result<Vec<u8>, (String, String)>> = std::thread::scope(|sc| {
                let hs: Vec<_> = (0..3).map(|_| sc.spawn(|| build_and_write(cfg).map(|b| b.bytes))).collect();
                hs.into_iter().map(|h| h.join().unwrap_or_else(|_| Err(("build-panic".to_string(), "panic in a concurrently building thread".to_string())))).collect()
            });
            for (i, r) in racing.into_iter().enumerate() {
                if r? != first {
                    return Err(("not-reproducible".into(), format!("concurrent in-process build #{i} differs from the sequential one")));
                }
            }
            for v in 0..3 {
                let other = build_in_child(cfg, v)?;
                if other != first {
                    return Err(("not-reproducible".into(), format!("build in a fresh process (variant {v}) differs: {}", super::common::first_diff(&other, &first))));
                }
            }
            // clamping
            let seg = fmt::decode(&first).map_err(|e| ("unsegmentable".to_string(), e))?;
            match fmt::get_u32s(&first, &seg.hdr, tags::BUILDTIME) {
                Some(t) if t.len() == 1 && t[0] <= sd => {}
                other => return Err(("buildtime-not-clamped".into(), format!("BUILDTIME {:?} with source date {sd}", other))),
            }
            if let Some(m) = fmt::get_u32s(&first, &seg.hdr, tags::FILEMTIMES) {
                if let Some(bad) = m.iter().find(|t| **t > sd) {
                    return Err(("mtime-not-clamped".into(), format!("a file mtime {bad} is later than the source date {sd}")));
                }
            }
            // a gzip member header carries a modification time of its own
            let payload = &first[seg.payload_start..];
            if payload.len() >= 8 && payload[0] == 0x1f && payload[1] == 0x8b {
                let t = u32::from_le_bytes([payload[4], payload[5], payload[6], payload[7]]);
                if t > sd {
                    return Err(("payload-time-not-clamped".into(), format!("the gzip header of the payload carries timestamp {t}, later than the source date {sd}")));
                }
            }
            // ... and so does every entry of the cpio archive inside it
            let comp = fmt::get_str(&first, &seg.hdr, tags::PAYLOADCOMPRESSOR);
            if let Ok(raw) = super::c08::decompress(comp.as_deref(), payload) {
                let sizes: Vec<u64> = match fmt::get_u64s(&first, &seg.hdr, tags::LONGFILESIZES) {
                    Some(v) => v,
                    None => fmt::get_u32s(&first, &seg.hdr, tags::FILESIZES).unwrap_or_default().into_iter().map(u64::from).collect(),
                };
                if let Ok((entries, _)) = crate::refimpl::cpio::parse_archive(&raw, &sizes) {
                    o.label("archive-entry-times-checked");
                    if let Some(bad) = entries.iter().find(|e| e.mtime > sd) {
                        return Err(("payload-time-not-clamped".into(), format!("the archive entry {:?} carries modification time {}, later than the source date {sd}", String::from_utf8_lossy(&bad.name), bad.mtime)));
                    }
                }
            }
            let times = signature_times(&first, &seg);
            if cfg.signer.is_some() && times.is_empty() {
                return Err(("signature-time".into(), "signed package without a readable signature creation time".into()));
            }
            if let Some(bad) = times.iter().find(|t| **t > sd as i64) {
                return Err(("signature-time-not-clamped".into(), format!("signature creation time {bad} is later than the source date {sd}")));
            }
            Ok(())
        })();
        if let Err((c, d)) = r {
            o.fail(&c, d);
        }
        o
    }
}
