//! C09 - emitted packages satisfy rpm's structural rules.

use super::built::*;
use super::c08::decompress;
use crate::engine::*;
use crate::gen::builder::*;
use crate::gen::pool;
use crate::refimpl::cpio;
use crate::refimpl::fmt;
use crate::refimpl::strict;
use crate::refimpl::tags;
use proptest::prelude::*;
use serde::{Deserialize, Serialize};
use std::sync::Arc;

pub struct C09;

#[derive(Serialize, Deserialize, Clone, Debug)]
pub enum C09Case {
    Built { cfg: BuilderConfig, ops: Vec<Op> },
    /// sign/clear histories on a foreign (rpmbuild-made) package
    Asset { idx: u8, ops: Vec<Op> },
}

fn magic_ok(comp: Option<&str>, payload: &[u8]) -> bool {
    match comp {
        None => payload.starts_with(b"07070"),
        Some("gzip") => payload.starts_with(&[0x1f, 0x8b]),
        Some("zstd") => payload.starts_with(&[0x28, 0xb5, 0x2f, 0xfd]),
        Some("xz") => payload.starts_with(&[0xfd, b'7', b'z', b'X', b'Z', 0]),
        Some("bzip2") => payload.starts_with(b"BZh"),
        _ => false,
    }
}

/// structural validation of written bytes; `files` = expected archive content in header order
/// (None for foreign packages, where only the header rules and the payload framing are checked)
pub fn validate(bytes: &[u8], files: Option<&[(FileSpec, Vec<u8>)]>, stage: &str) -> Result<(), (String, String)> {
    let seg = strict::validate_package(bytes).map_err(|e| ("header-structure".to_string(), format!("{stage}: {e}")))?;
    let payload = &bytes[seg.payload_start..];
    let comp = fmt::get_str(bytes, &seg.hdr, tags::PAYLOADCOMPRESSOR);
    if !magic_ok(comp.as_deref(), payload) {
        return Err(("payload-magic".into(), format!("{stage}: payload does not start with the magic of the compressor the header names ({:?})", comp)));
    }
    let raw = decompress(comp.as_deref(), payload).map_err(|e| ("payload-undecodable".to_string(), format!("{stage}: {e}")))?;
    // file table from the header (independent decoding)
    let sizes: Vec<u64> = match fmt::get_u64s(bytes, &seg.hdr, tags::LONGFILESIZES) {
        Some(v) => v,
        None => fmt::get_u32s(bytes, &seg.hdr, tags::FILESIZES).unwrap_or_default().into_iter().map(u64::from).collect(),
    };
    let modes = fmt::get_u16s(bytes, &seg.hdr, tags::FILEMODES).unwrap_or_default();
    let basenames = fmt::get_str_array(bytes, &seg.hdr, tags::BASENAMES).unwrap_or_default();
    let dirnames = fmt::get_str_array(bytes, &seg.hdr, tags::DIRNAMES).unwrap_or_default();
    let dirindexes = fmt::get_u32s(bytes, &seg.hdr, tags::DIRINDEXES).unwrap_or_default();
    let flags = fmt::get_u32s(bytes, &seg.hdr, tags::FILEFLAGS).unwrap_or_default();
    let (entries, rest) = cpio::parse_archive(&raw, &sizes).map_err(|e| ("cpio-structure".to_string(), format!("{stage}: {e}")))?;
    if raw[raw.len() - rest..].iter().any(|b| *b != 0) {
        return Err(("cpio-structure".into(), format!("{stage}: {} non-zero bytes after the trailer", rest)));
    }
    let requires = fmt::get_str_array(bytes, &seg.hdr, tags::REQUIRENAME).unwrap_or_default();
    let has = |f: &str| requires.iter().any(|r| r == &format!("rpmlib({f})"));
    let any_stripped = entries.iter().any(|e| e.stripped_index.is_some());
    if any_stripped {
        if !has("LargeFiles") {
            return Err(("rpmlib-features".into(), format!("{stage}: stripped cpio entries without rpmlib(LargeFiles)")));
        }
        if fmt::get_u64s(bytes, &seg.hdr, tags::LONGFILESIZES).is_none() {
            return Err(("cpio-structure".into(), format!("{stage}: stripped cpio entries without LONGFILESIZES")));
        }
    }
    if let Some(files) = files {
        // library-built: every header file is archived, in header order
        if basenames.len() != files.len() {
            return Err(("file-table".into(), format!("{stage}: {} files supplied, {} in the header", files.len(), basenames.len())));
        }
        if entries.len() != basenames.len() {
            return Err(("cpio-vs-header".into(), format!("{stage}: {} archive entries for {} header files", entries.len(), basenames.len())));
        }
        for (i, e) in entries.iter().enumerate() {
            let dir = dirnames.get(*dirindexes.get(i).unwrap_or(&u32::MAX) as usize).ok_or_else(|| ("file-table".to_string(), format!("{stage}: file {i} has no directory")))?;
            let path = format!("{}{}", dir, basenames[i]);
            if !dir.starts_with('/') || !dir.ends_with('/') || basenames[i].contains('/') || basenames[i].is_empty() || path.contains("//") {
                return Err(("file-table".into(), format!("{stage}: file {i}: dirname {:?} / basename {:?} are not in rpm's canonical form", dir, basenames[i])));
            }
            if path != files[i].0.abs_path() {
                return Err(("file-table".into(), format!("{stage}: header file {i} is {path:?}, expected {:?}", files[i].0.abs_path())));
            }
            match e.stripped_index {
                Some(ix) => {
                    if ix as usize != i {
                        return Err(("cpio-vs-header".into(), format!("{stage}: archive entry {i} carries index {ix}")));
                    }
                }
                None => {
                    if e.name != format!(".{path}").as_bytes() {
                        return Err(("cpio-vs-header".into(), format!("{stage}: archive entry {i} is named {:?}, header says {:?}", String::from_utf8_lossy(&e.name), path)));
                    }
                    if e.mode != modes[i] as u32 {
                        return Err(("cpio-vs-header".into(), format!("{stage}: {path:?}: cpio mode {:#o} != header mode {:#o}", e.mode, modes[i])));
                    }
                }
            }
            if e.filesize != sizes[i] || e.data != files[i].1 {
                return Err(("cpio-vs-header".into(), format!("{stage}: {path:?}: cpio size {} / header size {} / supplied {} bytes", e.filesize, sizes[i], files[i].1.len())));
            }
        }
        // rpmlib() features used must be declared
        for f in ["CompressedFileNames", "PayloadFilesHavePrefix", "FileDigests"] {
            if !has(f) {
                return Err(("rpmlib-features".into(), format!("{stage}: rpmlib({f}) is not declared")));
            }
        }
        let need = match comp.as_deref() {
            Some("zstd") => Some("PayloadIsZstd"),
            Some("xz") => Some("PayloadIsXz"),
            Some("bzip2") => Some("PayloadIsBzip2"),
            _ => None,
        };
        if let Some(f) = need {
            if !has(f) {
                return Err(("rpmlib-features".into(), format!("{stage}: payload is {} compressed but rpmlib({f}) is not declared", comp.as_deref().unwrap_or(""))));
            }
        }
        if fmt::get_val(bytes, &seg.hdr, tags::FILECAPS).is_some() && !has("FileCaps") {
            return Err(("rpmlib-features".into(), format!("{stage}: FILECAPS present but rpmlib(FileCaps) is not declared")));
        }
    } else {
        // foreign package: archive entries must match the non-ghost header files in order
        let mut k = 0usize;
        for i in 0..basenames.len() {
            if flags.get(i).copied().unwrap_or(0) & 64 != 0 {
                continue;
            }
            let Some(e) = entries.get(k) else {
                return Err(("cpio-vs-header".into(), format!("{stage}: archive ends before header file {i}")));
            };
            k += 1;
            let dir = dirnames.get(*dirindexes.get(i).unwrap_or(&u32::MAX) as usize).cloned().unwrap_or_default();
            // source packages archive their files under the bare base name
            let is_source = seg.hdr.find(tags::SOURCEPACKAGE).is_some();
            let path = if is_source { basenames[i].clone() } else { format!(".{}{}", dir, basenames[i]) };
            if e.stripped_index.is_none() && e.name != path.as_bytes() {
                return Err(("cpio-vs-header".into(), format!("{stage}: archive entry {k} is {:?}, expected {path:?}", String::from_utf8_lossy(&e.name))));
            }
        }
    }
    Ok(())
}

impl Property for C09 {
    type Case = C09Case;
    const ID: &'static str = "C09";
    fn new(_t: Tier) -> Self {
        C09
    }
    fn rule(&self) -> String {
        "every package produced from random builder configurations (all compressors, files/dirs/symlinks, caps, forced large-file format, signed or not) and after every step of random sign/clear/re-parse histories on them and on the six rpmbuild-made assets; judged by a strict validator modelled on rpm's hdrblobVerify* plus an independent cpio parser. Non-trivial = at least one file or a signature present; distinct by case hash.".into()
    }
    fn assumptions(&self) -> Vec<String> {
        vec![
            "the strict validator is first run on the six rpmbuild-made assets; if it rejects one the run is inconclusive (exit 2), not a violation".into(),
            "scriptlet interpreter lists are non-empty (an empty list is an invalid argument, not a configuration the property covers)".into(),
        ]
    }
    fn required_labels(&self, _t: Tier) -> Vec<&'static str> {
        vec!["built", "asset", "signed", "comp-xz", "comp-bzip2", "comp-zstd", "comp-gzip", "comp-none", "forced-large-file-format", "file-with-caps", "with-ops", "asset-self-test"]
    }
    fn phases(&self, tier: Tier) -> Vec<Phase<C09Case>> {
        vec![
            Phase::Enumerate { name: "asset-self-test", total: 6, exhaustive: false, gen: Arc::new(|i| Some(C09Case::Asset { idx: i as u8, ops: vec![] })) },
            Phase::Random {
                name: "built",
                cases: tier.pick(8_000, 200_000),
                strat: Arc::new(|| {
                    (prop_oneof![7 => config_any(CfgParams { max_files: 8, sizes: size_small(), comp: comp_mixed(), sign_prob: 0.2, file_kinds: true, force_large_prob: 0.15, rich_meta: true }), 1 => config_any(CfgParams { max_files: 3, sizes: super::c08::big_sizes(), comp: comp_fast(), sign_prob: 0.0, file_kinds: false, force_large_prob: 0.1, rich_meta: false })], prop_oneof![2 => Just(vec![]), 1 => proptest::collection::vec(op_cheap(), 1..4)])
                        .prop_map(|(mut cfg, ops)| {
                            if cfg.signer == Some(1) {
                                cfg.signer = Some(3);
                            }
                            C09Case::Built { cfg, ops }
                        })
                        .boxed()
                }),
            },
            Phase::Random {
                name: "asset-histories",
                cases: tier.pick(1_000, 20_000),
                strat: Arc::new(|| (0u8..5, proptest::collection::vec(op_cheap(), 1..4)).prop_map(|(idx, ops)| C09Case::Asset { idx, ops }).boxed()),
            },
        ]
    }
    fn check(&self, case: &C09Case) -> Outcome {
        let mut o = Outcome::new();
        let r = (|| -> Result<(), (String, String)> {
            match case {
                C09Case::Built { cfg, ops } => {
                    o.label("built");
                    super::c06::label_config(cfg, &mut o);
                    if !ops.is_empty() {
                        o.label("with-ops");
                    }
                    if !cfg.files.is_empty() || cfg.signer.is_some() || ops.iter().any(|x| matches!(x, Op::Sign(_) | Op::SignNow(_))) {
                        o.nontrivial_key(fnv1a(serde_json::to_string(case).unwrap_or_default().as_bytes()));
                    }
                    let b = build_and_write(cfg)?;
                    validate(&b.bytes, Some(&b.files), "after build")?;
                    let mut pkg = b.pkg;
                    for (i, op) in ops.iter().enumerate() {
                        apply_op(&mut pkg, op)?;
                        let bytes = write_pkg(&pkg)?;
                        validate(&bytes, Some(&b.files), &format!("after op #{i} {op:?}"))?;
                    }
                }
                C09Case::Asset { idx, ops } => {
                    o.label("asset");
                    let name = pool::ASSETS[*idx as usize % 6];
                    let bytes = pool::asset_bytes(name);
                    if ops.is_empty() {
                        o.label("asset-self-test");
                        o.nontrivial_key(fnv1a(name.as_bytes()));
                        // self-test of the reference: rpmbuild's own output must validate
                        if let Err((c, d)) = validate(&bytes, None, name) {
                            return Err(("harness-selftest".into(), format!("the strict validator rejects rpmbuild's own package {name}: {c}: {d}")));
                        }
                        return Ok(());
                    }
                    o.label("with-ops");
                    o.nontrivial_key(fnv1a(serde_json::to_string(case).unwrap_or_default().as_bytes()));
                    let mut pkg = parse_pkg(&bytes)?;
                    for (i, op) in ops.iter().enumerate() {
                        apply_op(&mut pkg, op)?;
                        let w = write_pkg(&pkg)?;
                        validate(&w, None, &format!("{name} after op #{i} {op:?}"))?;
                    }
                }
            }
            Ok(())
        })();
        if let Err((c, d)) = r {
            o.fail(&c, d);
        }
        o
    }
}
