//! C05 - metadata accessors return exactly what the header stores (R8: the documented meaning
//! of each accessor as a function of a typed model header, three-valued where the statement is
//! silent).

use crate::engine::*;
use crate::gen::pool;
use crate::refimpl::fmt::{self, HexBytes, Val};
use crate::refimpl::tags as t;
use proptest::prelude::*;
use serde::{Deserialize, Serialize};
use std::collections::BTreeMap;
use std::sync::Arc;

pub struct C05;

#[derive(Serialize, Deserialize, Clone, Debug)]
pub enum C05Case {
    /// `order`: sort keys that permute the index records (empty = ascending tag order); the
    /// accessors must find a tag wherever its record sits in the index
    Model {
        main: Vec<(u32, Val)>,
        filesigs: Option<Val>,
        #[serde(default)]
        order: Vec<u16>,
        /// number of trailing index records (after permutation) left outside the region
        #[serde(default)]
        dribbles: u8,
    },
    Asset(u8),
}

// ---- tag table ---------------------------------------------------------------------------------
#[derive(Clone, Copy, PartialEq, Debug)]
enum Ty {
    Str,
    I18n,
    U32,
    U64,
    StrArr,
    U32Arr,
    U16Arr,
    U64Arr,
    Null,
}

const DEP_TAGS: [(u32, u32, u32); 8] = [
    (t::PROVIDENAME, t::PROVIDEFLAGS, t::PROVIDEVERSION),
    (t::REQUIRENAME, t::REQUIREFLAGS, t::REQUIREVERSION),
    (t::CONFLICTNAME, t::CONFLICTFLAGS, t::CONFLICTVERSION),
    (t::OBSOLETENAME, t::OBSOLETEFLAGS, t::OBSOLETEVERSION),
    (t::RECOMMENDNAME, t::RECOMMENDFLAGS, t::RECOMMENDVERSION),
    (t::SUGGESTNAME, t::SUGGESTFLAGS, t::SUGGESTVERSION),
    (t::ENHANCENAME, t::ENHANCEFLAGS, t::ENHANCEVERSION),
    (t::SUPPLEMENTNAME, t::SUPPLEMENTFLAGS, t::SUPPLEMENTVERSION),
];

const SCRIPT_TAGS: [(u32, u32, u32); 8] = [
    (t::PREIN, t::PREINFLAGS, t::PREINPROG),
    (t::POSTIN, t::POSTINFLAGS, t::POSTINPROG),
    (t::PREUN, t::PREUNFLAGS, t::PREUNPROG),
    (t::POSTUN, t::POSTUNFLAGS, t::POSTUNPROG),
    (t::PRETRANS, t::PRETRANSFLAGS, t::PRETRANSPROG),
    (t::POSTTRANS, t::POSTTRANSFLAGS, t::POSTTRANSPROG),
    (t::PREUNTRANS, t::PREUNTRANSFLAGS, t::PREUNTRANSPROG),
    (t::POSTUNTRANS, t::POSTUNTRANSFLAGS, t::POSTUNTRANSPROG),
];

const FILE_GROUP: [(u32, Ty); 13] = [
    (t::FILEMODES, Ty::U16Arr),
    (t::FILEUSERNAME, Ty::StrArr),
    (t::FILEGROUPNAME, Ty::StrArr),
    (t::FILEDIGESTS, Ty::StrArr),
    (t::FILEMTIMES, Ty::U32Arr),
    (t::FILESIZES, Ty::U32Arr),
    (t::FILEFLAGS, Ty::U32Arr),
    (t::FILELINKTOS, Ty::StrArr),
    (t::BASENAMES, Ty::StrArr),
    (t::DIRINDEXES, Ty::U32Arr),
    (t::DIRNAMES, Ty::StrArr),
    (t::LONGFILESIZES, Ty::U64Arr),
    (t::FILECAPS, Ty::StrArr),
];

fn tag_table() -> Vec<(u32, Ty, u8)> {
    // (tag, right type, group id: 0 = independent, 1..=8 dep kinds, 9 changelog, 10 files)
    let mut v: Vec<(u32, Ty, u8)> = vec![];
    for tag in [t::NAME, t::VERSION, t::RELEASE, t::ARCH, t::VENDOR, t::URL, t::VCS, t::LICENSE, t::PACKAGER, t::BUILDHOST, t::COOKIE, t::SOURCERPM, t::PAYLOADCOMPRESSOR] {
        v.push((tag, Ty::Str, 0));
    }
    for tag in [t::SUMMARY, t::DESCRIPTION, t::GROUP] {
        v.push((tag, Ty::I18n, 0));
    }
    for tag in [t::EPOCH, t::BUILDTIME, t::SIZE, t::FILEDIGESTALGO] {
        v.push((tag, Ty::U32, 0));
    }
    v.push((t::LONGSIZE, Ty::U64, 0));
    v.push((t::SOURCEPACKAGE, Ty::Null, 0));
    for (b, f, p) in SCRIPT_TAGS {
        v.push((b, Ty::Str, 0));
        v.push((f, Ty::U32, 0));
        v.push((p, Ty::StrArr, 0));
    }
    for (i, (n, f, ver)) in DEP_TAGS.iter().enumerate() {
        v.push((*n, Ty::StrArr, 1 + i as u8));
        v.push((*f, Ty::U32Arr, 1 + i as u8));
        v.push((*ver, Ty::StrArr, 1 + i as u8));
    }
    v.push((t::CHANGELOGNAME, Ty::StrArr, 9));
    v.push((t::CHANGELOGTIME, Ty::U32Arr, 9));
    v.push((t::CHANGELOGTEXT, Ty::StrArr, 9));
    for (tag, ty) in FILE_GROUP {
        v.push((tag, ty, 10));
    }
    // distractors: legacy / alias tags that no accessor is documented to read; whatever they hold,
    // it must not leak into an accessor's answer (OLDFILENAMES, FILEUIDS, FILEGIDS, ARCHIVESIZE,
    // ORIGBASENAMES, ORIGDIRNAMES, FILENAMES, EVR, NVRA, NEVRA, EPOCHNUM, SIGSIZE, SIGMD5)
    for (tag, ty) in [(1027u32, Ty::StrArr), (1031, Ty::U32Arr), (1032, Ty::U32Arr), (1046, Ty::U32), (1120, Ty::StrArr), (1121, Ty::StrArr), (5000, Ty::StrArr), (5013, Ty::Str), (1196, Ty::Str), (5016, Ty::Str), (5019, Ty::U32), (257, Ty::U32), (261, Ty::Str)] {
        v.push((tag, ty, 0));
    }
    v
}

#[derive(Clone, Debug)]
struct Mat {
    /// 0..=5 absent, 6..=15 right type, 16..=19 wrong type
    mode: u8,
    strs: Vec<Vec<u8>>,
    ints: Vec<u64>,
    wrong: Val,
}

fn make_val(ty: Ty, strs: &[Vec<u8>], ints: &[u64]) -> Val {
    let hb = |v: &[Vec<u8>]| v.iter().map(|b| HexBytes(b.clone())).collect::<Vec<_>>();
    match ty {
        Ty::Str => Val::Str(strs.first().cloned().unwrap_or_default()),
        Ty::I18n => Val::I18n(hb(strs)),
        Ty::U32 | Ty::U32Arr => Val::Int32(ints.iter().map(|x| *x as u32).collect()),
        Ty::U64 | Ty::U64Arr => Val::Int64(ints.to_vec()),
        Ty::U16Arr => Val::Int16(ints.iter().map(|x| *x as u16).collect()),
        Ty::StrArr => Val::StrArray(hb(strs)),
        Ty::Null => Val::Null,
    }
}

fn resize<T: Clone + Default>(v: &[T], n: usize) -> Vec<T> {
    (0..n).map(|i| if v.is_empty() { T::default() } else { v[i % v.len()].clone() }).collect()
}

fn text() -> BoxedStrategy<Vec<u8>> {
    prop_oneof![
        8 => "[a-zA-Z0-9 ./_-]{0,12}".prop_map(|s| s.into_bytes()),
        2 => Just("é漢🦀".as_bytes().to_vec()),
        1 => Just(vec![]),
        1 => proptest::collection::vec(1u8..=255, 1..8),
        1 => proptest::sample::select(vec!["gzip", "zstd", "xz", "bzip2", "none", "lzma", "/usr/", "/", "a", "d41d8cd98f00b204e9800998ecf8427e", "e3b0c44298fc1c149afbf4c8996fb92427ae41e4649b934ca495991b7852b855"]).prop_map(|s| s.as_bytes().to_vec()),
    ]
    .boxed()
}

fn mat() -> BoxedStrategy<Mat> {
    (0u8..20, proptest::collection::vec(text(), 0..6), proptest::collection::vec(prop_oneof![4 => 0u64..4, 2 => any::<u32>().prop_map(u64::from), 1 => any::<u64>(), 1 => proptest::sample::select(vec![1u64, 8, 9, 10, 11, 12, 14, 0o100644, 0o040755, 0o120777])], 0..6), crate::gen::raw::val_any())
        .prop_map(|(mode, strs, ints, wrong)| Mat { mode, strs, ints, wrong })
        .boxed()
}

fn model_strategy() -> BoxedStrategy<C05Case> {
    let table = tag_table();
    let n = table.len();
    (proptest::collection::vec(mat(), n), proptest::collection::vec((0u8..10, 0usize..5), 11), proptest::option::weighted(0.3, mat()), (prop_oneof![2 => Just(vec![]), 1 => proptest::collection::vec(any::<u16>(), n)], prop_oneof![3 => Just(0u8), 1 => 1u8..4, 1 => 4u8..200]))
        .prop_map(move |(mats, groups, fs, (order, dribbles))| {
            let mut main: BTreeMap<u32, Val> = BTreeMap::new();
            for (i, (tag, ty, group)) in table.iter().enumerate() {
                let m = &mats[i];
                let (gmode, gn) = groups[*group as usize];
                // group modes: 0..=2 all absent, 3..=6 all present with consistent counts, else independent
                if *group != 0 && gmode <= 2 {
                    continue;
                }
                let consistent = *group != 0 && gmode <= 6;
                if consistent {
                    // optional members of the file group stay optional
                    if (*tag == t::LONGFILESIZES || *tag == t::FILECAPS) && m.mode < 12 {
                        continue;
                    }
                    let mut ints = resize(&m.ints, gn);
                    if *tag == t::DIRINDEXES {
                        ints = ints.iter().map(|x| x % 3).collect();
                    }
                    if *tag == t::FILEMODES {
                        ints = ints.iter().map(|x| [0o100644u64, 0o040755, 0o120777, 0o100000, 0o060000][(*x % 5) as usize]).collect();
                    }
                    let mut strs = resize(&m.strs, if *tag == t::DIRNAMES { 3 } else { gn });
                    if *tag == t::DIRNAMES {
                        strs = vec![b"/".to_vec(), b"/usr/bin/".to_vec(), b"/etc/".to_vec()];
                    }
                    if *tag == t::FILEDIGESTS {
                        // empty, lower-case, upper-case and mixed-case hex of the right length
                        strs = strs
                            .iter()
                            .enumerate()
                            .map(|(k, _)| match (k + gn) % 4 {
                                0 => vec![],
                                1 => b"e3b0c44298fc1c149afbf4c8996fb92427ae41e4649b934ca495991b7852b855".to_vec(),
                                2 => b"E3B0C44298FC1C149AFBF4C8996FB92427AE41E4649B934CA495991B7852B855".to_vec(),
                                _ => b"e3B0c44298Fc1c149afBF4c8996fb92427ae41e4649b934ca495991b7852B855".to_vec(),
                            })
                            .collect();
                    }
                    main.insert(*tag, make_val(*ty, &strs, &ints));
                    continue;
                }
                match m.mode {
                    0..=5 => {}
                    6..=15 => {
                        main.insert(*tag, make_val(*ty, &m.strs, &m.ints));
                    }
                    _ => {
                        main.insert(*tag, m.wrong.clone());
                    }
                }
            }
            // consistent file group: digest algorithm that fits the digests
            if groups[10].0 > 2 && groups[10].0 <= 6 && groups[10].1 % 2 == 0 {
                main.insert(t::FILEDIGESTALGO, Val::Int32(vec![8]));
            }
            let filesigs = fs.map(|m| if m.mode >= 16 { m.wrong.clone() } else { make_val(Ty::StrArr, &m.strs, &m.ints) });
            C05Case::Model { main: main.into_iter().collect(), filesigs, order, dribbles }
        })
        .boxed()
}

// ---- expectations ------------------------------------------------------------------------------
#[derive(Debug, Clone)]
enum Exp<T> {
    Is(T),
    Err,
    Either(Vec<Exp<T>>),
    Skip,
}

fn matches_exp<T: PartialEq>(got: &Result<T, String>, exp: &Exp<T>) -> bool {
    match exp {
        Exp::Is(v) => got.as_ref().ok() == Some(v),
        Exp::Err => got.is_err(),
        Exp::Either(alts) => alts.iter().any(|a| matches_exp(got, a)),
        Exp::Skip => true,
    }
}

fn judge<T: PartialEq + std::fmt::Debug>(clause: &str, what: &str, got: Result<T, String>, exp: Exp<T>) -> Result<(), (String, String)> {
    if matches_exp(&got, &exp) {
        Ok(())
    } else {
        let mut g = format!("{:?}", got);
        g.truncate(400);
        let mut e = format!("{:?}", exp);
        e.truncate(400);
        Err((clause.to_string(), format!("{what}: returned {g}, the header bytes say {e}")))
    }
}

fn utf8(b: &[u8]) -> Option<String> {
    String::from_utf8(b.to_vec()).ok()
}

struct Model<'a> {
    main: &'a BTreeMap<u32, Val>,
}

impl Model<'_> {
    fn get(&self, tag: u32) -> Option<&Val> {
        self.main.get(&tag)
    }
    fn str_exp(&self, tag: u32) -> Exp<String> {
        match self.get(tag) {
            Some(Val::Str(b)) => utf8(b).map(Exp::Is).unwrap_or(Exp::Skip),
            _ => Exp::Err,
        }
    }
    fn i18n_exp(&self, tag: u32) -> Exp<String> {
        match self.get(tag) {
            Some(Val::I18n(items)) => match items.first() {
                Some(b) => utf8(&b.0).map(Exp::Is).unwrap_or(Exp::Skip),
                None => Exp::Err,
            },
            _ => Exp::Err,
        }
    }
    fn u32_exp(&self, tag: u32) -> Exp<u32> {
        match self.get(tag) {
            Some(Val::Int32(v)) => v.first().map(|x| Exp::Is(*x)).unwrap_or(Exp::Err),
            _ => Exp::Err,
        }
    }
    /// string array (STRING_ARRAY or I18NSTRING): None = absent, Err(()) = present but unusable
    fn strs(&self, tag: u32) -> Option<Result<Vec<Option<String>>, ()>> {
        match self.get(tag) {
            None => None,
            Some(Val::StrArray(v)) | Some(Val::I18n(v)) => Some(Ok(v.iter().map(|b| utf8(&b.0)).collect())),
            Some(_) => Some(Err(())),
        }
    }
    fn u32s(&self, tag: u32) -> Option<Result<Vec<u32>, ()>> {
        match self.get(tag) {
            None => None,
            Some(Val::Int32(v)) => Some(Ok(v.clone())),
            Some(_) => Some(Err(())),
        }
    }
}

type Triple = (String, u64, String);

/// names/numbers/texts zipped in order; all absent -> [], unequal counts -> prefix or error
fn zip3(names: Option<Result<Vec<Option<String>>, ()>>, nums: Option<Result<Vec<u32>, ()>>, texts: Option<Result<Vec<Option<String>>, ()>>) -> Exp<Vec<Triple>> {
    match (names, nums, texts) {
        (None, None, None) => Exp::Is(vec![]),
        (Some(Ok(n)), Some(Ok(f)), Some(Ok(v))) => {
            let len = n.len().min(f.len()).min(v.len());
            let mut out = vec![];
            for i in 0..len {
                match (&n[i], &v[i]) {
                    (Some(a), Some(b)) => out.push((a.clone(), f[i] as u64, b.clone())),
                    _ => return Exp::Skip, // non-UTF-8 item
                }
            }
            if n.len() == f.len() && f.len() == v.len() {
                Exp::Is(out)
            } else {
                Exp::Either(vec![Exp::Is(out), Exp::Err])
            }
        }
        _ => Exp::Err,
    }
}

#[derive(Debug, PartialEq, Clone)]
struct FE {
    path: String,
    mode: u16,
    user: String,
    group: String,
    mtime: u32,
    size: u64,
    flags: u32,
    linkto: String,
    digest: Option<String>,
    caps: Option<String>,
    ima: Option<String>,
}

fn expected_paths(m: &Model) -> Exp<Vec<String>> {
    match (m.strs(t::BASENAMES), m.u32s(t::DIRINDEXES), m.strs(t::DIRNAMES)) {
        (None, None, None) => Exp::Is(vec![]),
        (Some(Ok(b)), Some(Ok(di)), Some(Ok(d))) => {
            let n = b.len().min(di.len());
            let mut out = vec![];
            for i in 0..n {
                let Some(dir) = d.get(di[i] as usize) else { return Exp::Err };
                match (dir, &b[i]) {
                    (Some(dir), Some(base)) => {
                        if !dir.ends_with('/') || base.contains('/') || base.is_empty() {
                            return Exp::Skip; // outside rpm's canonical dirname/basename form
                        }
                        out.push(format!("{dir}{base}"));
                    }
                    _ => return Exp::Skip,
                }
            }
            if b.len() == di.len() {
                Exp::Is(out)
            } else {
                Exp::Either(vec![Exp::Is(out), Exp::Err])
            }
        }
        _ => Exp::Err,
    }
}

fn digest_len(algo: u32) -> Option<usize> {
    Some(match algo {
        1 => 32,
        8 => 64,
        9 => 96,
        10 => 128,
        11 => 56,
        _ => return None,
    })
}

fn expected_entries(m: &Model, filesigs: &Option<Val>) -> Exp<Vec<FE>> {
    let file_tags_present = FILE_GROUP.iter().any(|(tag, _)| m.get(*tag).is_some());
    if m.get(t::FILEMODES).is_none() {
        return if file_tags_present { Exp::Either(vec![Exp::Is(vec![]), Exp::Err]) } else { Exp::Is(vec![]) };
    }
    let modes = match m.get(t::FILEMODES) {
        Some(Val::Int16(v)) => v.clone(),
        _ => return Exp::Err,
    };
    let req_s = |tag| match m.strs(tag) {
        Some(Ok(v)) => Ok(v),
        _ => Err(()),
    };
    let req_i = |tag| match m.u32s(tag) {
        Some(Ok(v)) => Ok(v),
        _ => Err(()),
    };
    let (Ok(users), Ok(groups), Ok(digests), Ok(links), Ok(mtimes), Ok(flags)) = (req_s(t::FILEUSERNAME), req_s(t::FILEGROUPNAME), req_s(t::FILEDIGESTS), req_s(t::FILELINKTOS), req_i(t::FILEMTIMES), req_i(t::FILEFLAGS)) else {
        return Exp::Err;
    };
    let mut ambiguous_sizes = false;
    let sizes: Vec<u64> = match (m.get(t::LONGFILESIZES), m.get(t::FILESIZES)) {
        (Some(Val::Int64(v)), _) => v.clone(),
        (long, Some(Val::Int32(v))) => {
            ambiguous_sizes = long.is_some();
            v.iter().map(|x| *x as u64).collect()
        }
        _ => return Exp::Err,
    };
    let caps = match m.strs(t::FILECAPS) {
        None => None,
        Some(Ok(v)) => Some(v),
        Some(Err(())) => return Exp::Err,
    };
    let ima: Option<Vec<Option<String>>> = match filesigs {
        None => None,
        Some(Val::StrArray(v)) | Some(Val::I18n(v)) => Some(v.iter().map(|b| utf8(&b.0)).collect()),
        Some(_) => return Exp::Err,
    };
    let paths = match expected_paths(m) {
        Exp::Is(p) => p,
        Exp::Err => return Exp::Err,
        Exp::Either(_) => return Exp::Skip,
        Exp::Skip => return Exp::Skip,
    };
    // digest algorithm: absent -> MD5; an invalid value is a three-valued zone
    let algo = match m.get(t::FILEDIGESTALGO) {
        None => 1,
        Some(Val::Int32(v)) if !v.is_empty() => {
            if [1u32, 8, 9, 10, 11, 12, 14].contains(&v[0]) {
                v[0]
            } else {
                return Exp::Skip;
            }
        }
        Some(_) => return Exp::Skip,
    };
    let counts = [paths.len(), users.len(), groups.len(), modes.len(), digests.len(), mtimes.len(), sizes.len(), flags.len(), links.len()];
    let n = *counts.iter().min().unwrap();
    let mut out = vec![];
    for i in 0..n {
        let (Some(user), Some(group), Some(digest), Some(link)) = (&users[i], &groups[i], &digests[i], &links[i]) else { return Exp::Skip };
        let digest = if digest.is_empty() {
            None
        } else {
            match digest_len(algo) {
                Some(l) if l == digest.len() => Some(digest.clone()),
                _ => return Exp::Err, // digest does not fit the algorithm
            }
        };
        let cap = match &caps {
            None => None,
            Some(c) => match c.get(i) {
                None => None,
                Some(Some(x)) => Some(x.clone()),
                Some(None) => return Exp::Skip,
            },
        };
        let im = match &ima {
            None => None,
            Some(c) => match c.get(i) {
                None => None,
                Some(Some(x)) => Some(x.clone()),
                Some(None) => return Exp::Skip,
            },
        };
        out.push(FE { path: paths[i].clone(), mode: modes[i], user: user.clone(), group: group.clone(), mtime: mtimes[i], size: sizes[i], flags: flags[i], linkto: link.clone(), digest, caps: cap, ima: im });
    }
    let equal = counts.iter().all(|c| *c == n);
    if equal && !ambiguous_sizes {
        Exp::Is(out)
    } else {
        Exp::Either(vec![Exp::Is(out), Exp::Err])
    }
}

fn es<T>(r: Result<T, rpm::Error>) -> Result<T, String> {
    r.map_err(|e| e.to_string())
}

fn typed_getters<T: rpm::Tag>(h: &rpm::Header<T>, tag: T, val: Option<&Val>, name: &str) -> Result<(), (String, String)> {
    let w = |g: &str| format!("{g}({name})");
    let c = "typed-getter";
    judge(c, &w("get_entry_data_as_binary"), es(h.get_entry_data_as_binary(tag)).map(|b| b.to_vec()), match val {
        Some(Val::Bin(b)) => Exp::Is(b.clone()),
        _ => Exp::Err,
    })?;
    judge(c, &w("get_entry_data_as_string"), es(h.get_entry_data_as_string(tag)).map(|s| s.to_string()), match val {
        Some(Val::Str(b)) => utf8(b).map(Exp::Is).unwrap_or(Exp::Skip),
        _ => Exp::Err,
    })?;
    judge(c, &w("get_entry_data_as_i18n_string"), es(h.get_entry_data_as_i18n_string(tag)).map(|s| s.to_string()), match val {
        Some(Val::I18n(items)) => match items.first() {
            Some(b) => utf8(&b.0).map(Exp::Is).unwrap_or(Exp::Skip),
            None => Exp::Err,
        },
        _ => Exp::Err,
    })?;
    judge(c, &w("get_entry_data_as_u16_array"), es(h.get_entry_data_as_u16_array(tag)), match val {
        Some(Val::Int16(v)) => Exp::Is(v.clone()),
        _ => Exp::Err,
    })?;
    judge(c, &w("get_entry_data_as_u32"), es(h.get_entry_data_as_u32(tag)), match val {
        Some(Val::Int32(v)) => v.first().map(|x| Exp::Is(*x)).unwrap_or(Exp::Err),
        _ => Exp::Err,
    })?;
    judge(c, &w("get_entry_data_as_u32_array"), es(h.get_entry_data_as_u32_array(tag)), match val {
        Some(Val::Int32(v)) => Exp::Is(v.clone()),
        _ => Exp::Err,
    })?;
    judge(c, &w("get_entry_data_as_u64"), es(h.get_entry_data_as_u64(tag)), match val {
        Some(Val::Int64(v)) => v.first().map(|x| Exp::Is(*x)).unwrap_or(Exp::Err),
        _ => Exp::Err,
    })?;
    judge(c, &w("get_entry_data_as_u64_array"), es(h.get_entry_data_as_u64_array(tag)), match val {
        Some(Val::Int64(v)) => Exp::Is(v.clone()),
        _ => Exp::Err,
    })?;
    judge(c, &w("get_entry_data_as_string_array"), es(h.get_entry_data_as_string_array(tag)).map(|s| s.to_vec()), match val {
        Some(Val::StrArray(items)) | Some(Val::I18n(items)) => {
            let v: Option<Vec<String>> = items.iter().map(|b| utf8(&b.0)).collect();
            v.map(Exp::Is).unwrap_or(Exp::Skip)
        }
        _ => Exp::Err,
    })?;
    let present = h.entry_is_present(tag);
    if present != val.is_some() {
        return Err((c.into(), format!("entry_is_present({name}) = {present}")));
    }
    Ok(())
}

fn compare_all(p: &rpm::PackageMetadata, main: &BTreeMap<u32, Val>, sig: &BTreeMap<u32, Val>, o: &mut Outcome) -> Result<(), (String, String)> {
    use num_traits::FromPrimitive;
    let m = Model { main };
    let (mut n_ok, mut n_err) = (0u32, 0u32);
    // typed getters for every tag of the table and every tag present
    let mut tags: Vec<u32> = tag_table().iter().map(|x| x.0).collect();
    tags.extend(main.keys().copied());
    tags.sort();
    tags.dedup();
    for tag in tags {
        if let Some(tt) = rpm::IndexTag::from_u32(tag) {
            typed_getters(&p.header, tt, main.get(&tag), &format!("{tt:?}"))?;
        }
    }
    typed_getters(&p.signature, rpm::IndexSignatureTag::RPMSIGTAG_FILESIGNATURES, sig.get(&t::SIG_FILESIGNATURES), "RPMSIGTAG_FILESIGNATURES")?;
    // scalar accessors
    let mut sc = |what: &str, got: Result<&str, rpm::Error>, exp: Exp<String>| {
        let g = es(got).map(|s| s.to_string());
        if g.as_ref().map(|s| !s.is_empty()).unwrap_or(false) {
            n_ok += 1;
        }
        if g.is_err() {
            n_err += 1;
        }
        judge("scalar", what, g, exp)
    };
    sc("get_name", p.get_name(), m.str_exp(t::NAME))?;
    sc("get_version", p.get_version(), m.str_exp(t::VERSION))?;
    sc("get_release", p.get_release(), m.str_exp(t::RELEASE))?;
    sc("get_arch", p.get_arch(), m.str_exp(t::ARCH))?;
    sc("get_vendor", p.get_vendor(), m.str_exp(t::VENDOR))?;
    sc("get_url", p.get_url(), m.str_exp(t::URL))?;
    sc("get_vcs", p.get_vcs(), m.str_exp(t::VCS))?;
    sc("get_license", p.get_license(), m.str_exp(t::LICENSE))?;
    sc("get_packager", p.get_packager(), m.str_exp(t::PACKAGER))?;
    sc("get_build_host", p.get_build_host(), m.str_exp(t::BUILDHOST))?;
    sc("get_cookie", p.get_cookie(), m.str_exp(t::COOKIE))?;
    sc("get_source_rpm", p.get_source_rpm(), m.str_exp(t::SOURCERPM))?;
    sc("get_summary", p.get_summary(), m.i18n_exp(t::SUMMARY))?;
    sc("get_description", p.get_description(), m.i18n_exp(t::DESCRIPTION))?;
    sc("get_group", p.get_group(), m.i18n_exp(t::GROUP))?;
    judge("scalar", "get_epoch", es(p.get_epoch()), m.u32_exp(t::EPOCH))?;
    judge("scalar", "get_build_time", es(p.get_build_time()), match m.u32_exp(t::BUILDTIME) {
        Exp::Is(v) => Exp::Is(v as u64),
        _ => Exp::Err,
    })?;
    if p.is_source_package() != main.contains_key(&t::SOURCEPACKAGE) {
        return Err(("scalar".into(), "is_source_package disagrees with the presence of SOURCEPACKAGE".into()));
    }
    // installed size: LONGSIZE else SIZE
    let size_fallback = match m.u32_exp(t::SIZE) {
        Exp::Is(v) => Exp::Is(v as u64),
        _ => Exp::Err,
    };
    let size_exp = match m.get(t::LONGSIZE) {
        Some(Val::Int64(v)) if !v.is_empty() => Exp::Is(v[0]),
        None => size_fallback,
        Some(_) => Exp::Either(vec![size_fallback, Exp::Err]),
    };
    judge("installed-size", "get_installed_size", es(p.get_installed_size()), size_exp)?;
    // compressor
    let comp_exp = match m.get(t::PAYLOADCOMPRESSOR) {
        None => Exp::Is(rpm::CompressionType::None),
        Some(Val::Str(b)) => match b.as_slice() {
            b"gzip" => Exp::Is(rpm::CompressionType::Gzip),
            b"zstd" => Exp::Is(rpm::CompressionType::Zstd),
            b"xz" => Exp::Is(rpm::CompressionType::Xz),
            b"bzip2" => Exp::Is(rpm::CompressionType::Bzip2),
            b"none" => Exp::Either(vec![Exp::Is(rpm::CompressionType::None), Exp::Err]),
            _ => Exp::Err,
        },
        Some(_) => Exp::Err,
    };
    judge("compressor", "get_payload_compressor", es(p.get_payload_compressor()), comp_exp)?;
    // file digest algorithm
    let algo_exp = match m.u32_exp(t::FILEDIGESTALGO) {
        Exp::Is(v) if [1u32, 8, 9, 10, 11, 12, 14].contains(&v) => Exp::Is(v),
        _ => Exp::Err,
    };
    judge("scalar", "get_file_digest_algorithm", es(p.get_file_digest_algorithm()).map(|a| a as u32), algo_exp)?;
    // scriptlets
    for (i, (b, f, pr)) in SCRIPT_TAGS.iter().enumerate() {
        let got = match i {
            0 => p.get_pre_install_script(),
            1 => p.get_post_install_script(),
            2 => p.get_pre_uninstall_script(),
            3 => p.get_post_uninstall_script(),
            4 => p.get_pre_trans_script(),
            5 => p.get_post_trans_script(),
            6 => p.get_pre_untrans_script(),
            _ => p.get_post_untrans_script(),
        };
        let what = format!("scriptlet #{i}");
        match (m.str_exp(*b), es(got)) {
            (Exp::Skip, _) => {}
            (Exp::Is(body), Ok(s)) => {
                if s.script != body {
                    return Err(("scriptlet".into(), format!("{what}: body {:?}, header says {:?}", s.script, body)));
                }
                let fl = s.flags.map(|x| x.bits());
                let fl_ok = match m.get(*f) {
                    None => fl.is_none(),
                    Some(Val::Int32(v)) if !v.is_empty() => fl == Some(v[0]),
                    Some(_) => fl.is_none(), // unusable optional tag: no value may be invented
                };
                if !fl_ok {
                    return Err(("scriptlet".into(), format!("{what}: flags {:?}, header says {:?}", fl, m.get(*f))));
                }
                let pg_ok = match m.strs(*pr) {
                    None | Some(Err(())) => s.program.is_none(),
                    Some(Ok(v)) => match v.into_iter().collect::<Option<Vec<String>>>() {
                        Some(v) => s.program == Some(v),
                        None => true,
                    },
                };
                if !pg_ok {
                    return Err(("scriptlet".into(), format!("{what}: program {:?}, header says {:?}", s.program, m.get(*pr))));
                }
            }
            (Exp::Is(_), Err(e)) => {
                // a broken optional member may be reported as an error, a missing body must not be
                let optional_broken = matches!(m.get(*f), Some(v) if !matches!(v, Val::Int32(x) if !x.is_empty())) || matches!(m.strs(*pr), Some(Err(())));
                if !optional_broken {
                    return Err(("scriptlet".into(), format!("{what}: error {e} although the body tag is present")));
                }
            }
            (_, Ok(s)) => return Err(("scriptlet".into(), format!("{what}: returned body {:?} although the body tag is absent or not a string", s.script))),
            (_, Err(_)) => {}
        }
    }
    // dependencies
    for (i, (n, f, v)) in DEP_TAGS.iter().enumerate() {
        let got = match i {
            0 => p.get_provides(),
            1 => p.get_requires(),
            2 => p.get_conflicts(),
            3 => p.get_obsoletes(),
            4 => p.get_recommends(),
            5 => p.get_suggests(),
            6 => p.get_enhances(),
            _ => p.get_supplements(),
        };
        let got: Result<Vec<Triple>, String> = es(got).map(|d| d.into_iter().map(|d| (d.name, d.flags.bits() as u64, d.version)).collect());
        judge("dependencies", &format!("dependency list #{i}"), got, zip3(m.strs(*n), m.u32s(*f), m.strs(*v)))?;
    }
    let got: Result<Vec<Triple>, String> = es(p.get_changelog_entries()).map(|c| c.into_iter().map(|c| (c.name, c.timestamp, c.description)).collect());
    judge("changelog", "get_changelog_entries", got, zip3(m.strs(t::CHANGELOGNAME), m.u32s(t::CHANGELOGTIME), m.strs(t::CHANGELOGTEXT)))?;
    // files
    let got = es(p.get_file_paths()).map(|v| v.into_iter().map(|p| p.as_os_str().to_string_lossy().to_string()).collect::<Vec<_>>());
    judge("file-paths", "get_file_paths", got, expected_paths(&m))?;
    let got = es(p.get_file_entries()).map(|v| {
        v.into_iter()
            .map(|e| FE {
                path: e.path.as_os_str().to_string_lossy().to_string(),
                mode: e.mode.raw_mode(),
                user: e.ownership.user,
                group: e.ownership.group,
                mtime: e.modified_at.0,
                size: e.size as u64,
                flags: e.flags.bits(),
                linkto: e.linkto,
                digest: e.digest.map(|d| d.as_hex().to_string()),
                caps: e.caps,
                ima: e.ima_signature,
            })
            .collect::<Vec<_>>()
    });
    if got.as_ref().map(|v| !v.is_empty()).unwrap_or(false) {
        o.label("file-entries-nonempty");
    }
    judge("file-entries", "get_file_entries", got, expected_entries(&m, &sig.get(&t::SIG_FILESIGNATURES).cloned()))?;
    if n_ok >= 1 && n_err >= 1 {
        o.nontrivial = 1;
    }
    Ok(())
}

impl Property for C05 {
    type Case = C05Case;
    const ID: &'static str = "C05";
    fn new(_t: Tier) -> Self {
        C05
    }
    fn rule(&self) -> String {
        "well-formed hand-encoded headers (unique tags, correct layout, index records in ascending or permuted order) in which each of ~100 tags read by the accessors is absent, present with its proper type (0..5 items, multi-locale i18n, empty/multi-byte/non-UTF-8 strings, 32- and 64-bit sizes, in- and out-of-range directory indexes) or present with any other of the 10 types; dependency/changelog/file tag groups are generated absent, consistent or independently broken; plus the six assets decoded independently. Every public accessor and every typed getter is compared with the value an independent decoding of the model gives. Non-trivial = at least one scalar accessor returned a non-empty value and at least one returned an error; distinct by hash of the header.".into()
    }
    fn assumptions(&self) -> Vec<String> {
        vec![
            "three-valued zones (either documented answer accepted): unequal counts inside a tag group (prefix or error), LONGSIZE/LONGFILESIZES unusable with a valid 32-bit tag, invalid FILEDIGESTALGO value, non-UTF-8 data, dirnames/basenames outside rpm's canonical form, 'none' as PAYLOADCOMPRESSOR value".into(),
            "error variants are not checked, only that an error is returned".into(),
        ]
    }
    fn required_labels(&self, _t: Tier) -> Vec<&'static str> {
        vec!["records-outside-region", "model", "asset", "unsorted-index", "multi-locale-i18n", "i18n-zero-items", "wrong-type-present", "file-entries-nonempty", "long-sizes", "dirindex-out-of-range", "count-zero-scalar"]
    }
    fn phases(&self, tier: Tier) -> Vec<Phase<C05Case>> {
        vec![
            Phase::Enumerate { name: "assets", total: 6, exhaustive: false, gen: Arc::new(|i| Some(C05Case::Asset(i as u8))) },
            Phase::Random { name: "typed-headers", cases: tier.pick(60_000, 2_000_000), strat: Arc::new(model_strategy) },
        ]
    }
    fn check(&self, case: &C05Case) -> Outcome {
        let mut o = Outcome::new();
        let r = (|| -> Result<(), (String, String)> {
            let (bytes, main, sig): (Vec<u8>, BTreeMap<u32, Val>, BTreeMap<u32, Val>) = match case {
                C05Case::Model { main, filesigs, order, dribbles } => {
                    o.label("model");
                    let mainmap: BTreeMap<u32, Val> = main.iter().cloned().collect();
                    let table = tag_table();
                    for (tag, v) in &mainmap {
                        if let Val::I18n(items) = v {
                            if items.len() >= 2 {
                                o.label("multi-locale-i18n");
                            }
                            if items.is_empty() {
                                o.label("i18n-zero-items");
                            }
                        }
                        if let Some((_, ty, _)) = table.iter().find(|x| x.0 == *tag) {
                            let right = matches!((ty, v), (Ty::Str, Val::Str(_)) | (Ty::I18n, Val::I18n(_)) | (Ty::U32, Val::Int32(_)) | (Ty::U32Arr, Val::Int32(_)) | (Ty::U64, Val::Int64(_)) | (Ty::U64Arr, Val::Int64(_)) | (Ty::U16Arr, Val::Int16(_)) | (Ty::StrArr, Val::StrArray(_)) | (Ty::Null, Val::Null));
                            if !right {
                                o.label("wrong-type-present");
                            }
                            if matches!((ty, v), (Ty::U32, Val::Int32(x)) if x.is_empty()) {
                                o.label("count-zero-scalar");
                            }
                        }
                    }
                    if matches!(mainmap.get(&t::LONGFILESIZES), Some(Val::Int64(_))) || matches!(mainmap.get(&t::LONGSIZE), Some(Val::Int64(_))) {
                        o.label("long-sizes");
                    }
                    if let (Some(Val::Int32(di)), Some(Val::StrArray(d))) = (mainmap.get(&t::DIRINDEXES), mainmap.get(&t::DIRNAMES)) {
                        if di.iter().any(|i| *i as usize >= d.len()) {
                            o.label("dirindex-out-of-range");
                        }
                    }
                    let mut entries: Vec<(usize, (u32, Val))> = mainmap.iter().map(|(k, v)| (*k, v.clone())).enumerate().collect();
                    if !order.is_empty() {
                        entries.sort_by_key(|(i, _)| (order[i % order.len()], *i));
                        if entries.windows(2).any(|w| w[0].1 .0 > w[1].1 .0) {
                            o.label("unsorted-index");
                        }
                    }
                    let entries: Vec<(u32, Val)> = entries.into_iter().map(|(_, e)| e).collect();
                    if *dribbles > 0 && !entries.is_empty() {
                        o.label("records-outside-region");
                    }
                    let hdr = fmt::layout_with_dribbles(&entries, Some(fmt::TAG_HEADERIMMUTABLE), *dribbles as usize);
                    let mut sigmap = BTreeMap::new();
                    if let Some(v) = filesigs {
                        sigmap.insert(t::SIG_FILESIGNATURES, v.clone());
                    }
                    let sig_entries: Vec<(u32, Val)> = sigmap.iter().map(|(k, v)| (*k, v.clone())).collect();
                    let sigh = fmt::layout(&sig_entries, Some(fmt::TAG_HEADERSIGNATURES));
                    let pad = vec![0u8; fmt::sig_padding(sigh.dl)];
                    let bytes = fmt::RawPackage { lead: fmt::default_lead("c05"), sig: sigh, sig_pad: pad, hdr, payload: vec![] }.encode();
                    (bytes, mainmap, sigmap)
                }
                C05Case::Asset(i) => {
                    o.label("asset");
                    let bytes = pool::asset_bytes(pool::ASSETS[*i as usize % 6]);
                    let seg = fmt::decode(&bytes).map_err(|e| ("harness-asset".to_string(), e))?;
                    let mut main = BTreeMap::new();
                    for e in &seg.hdr.entries {
                        if e.tag >= 100 {
                            let v = fmt::decode_entry(seg.hdr.store(&bytes), e).ok_or_else(|| ("harness-asset".to_string(), format!("cannot decode tag {}", e.tag)))?;
                            main.insert(e.tag, v);
                        }
                    }
                    let mut sig = BTreeMap::new();
                    for e in &seg.sig.entries {
                        if e.tag >= 100 {
                            if let Some(v) = fmt::decode_entry(seg.sig.store(&bytes), e) {
                                sig.insert(e.tag, v);
                            }
                        }
                    }
                    o.nontrivial = 1;
                    (bytes, main, sig)
                }
            };
            o.key = Some(fnv1a(&bytes));
            // what the accessors return must not depend on how the bytes arrive
            let sel = fnv1a(&bytes) >> 7;
            o.label(if sel % 6 == 0 { "source-slice" } else { "source-chunked-bufreader" });
            let p = match panics::catch(|| super::common::with_source(&bytes, sel, |mut r| rpm::PackageMetadata::parse(&mut r))) {
                Ok(Ok(p)) => p,
                Ok(Err(e)) => return Err(("well-formed-rejected".into(), format!("a well-formed header is rejected: {e}"))),
                Err(_) => {
                    o.label("crashed");
                    return Ok(());
                }
            };
            match panics::catch(|| compare_all(&p, &main, &sig, &mut o)) {
                Ok(r) => r,
                Err(_) => {
                    o.label("crashed");
                    Ok(())
                }
            }
        })();
        if o.nontrivial == 0 {
            o.key = None;
        }
        if let Err((c, d)) = r {
            o.fail(&c, d);
        }
        o
    }
}
