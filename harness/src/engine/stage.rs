//! "Current stage" marker of a worker, appended to stderr by a fatal-signal handler so that the
//! parent can attribute an abort (allocation failure, stack overflow) to a stage.

use std::sync::atomic::{AtomicUsize, Ordering};

static mut STAGE: [u8; 64] = [0; 64];
static STAGE_LEN: AtomicUsize = AtomicUsize::new(0);

pub fn set(name: &str) {
    let b = name.as_bytes();
    let n = b.len().min(64);
    unsafe {
        let p = std::ptr::addr_of_mut!(STAGE) as *mut u8;
        std::ptr::copy_nonoverlapping(b.as_ptr(), p, n);
    }
    STAGE_LEN.store(n, Ordering::SeqCst);
}

extern "C" fn on_fatal(sig: libc::c_int) {
    unsafe {
        let pre = b" | stage=";
        libc::write(2, pre.as_ptr() as *const libc::c_void, pre.len());
        let n = STAGE_LEN.load(Ordering::SeqCst);
        let p = std::ptr::addr_of!(STAGE) as *const u8;
        libc::write(2, p as *const libc::c_void, n);
        libc::write(2, b"\n".as_ptr() as *const libc::c_void, 1);
        libc::signal(sig, libc::SIG_DFL);
        libc::raise(sig);
    }
}

pub fn install_fatal_handler() {
    unsafe {
        libc::signal(libc::SIGABRT, on_fatal as usize);
    }
}
