//! Known findings: a committed, read-only list. A failure matches a finding only when the
//! property, the oracle clause and (if given) a substring of the detail all match.

use super::Failure;
use serde::{Deserialize, Serialize};

#[derive(Serialize, Deserialize, Clone, Debug)]
pub struct Finding {
    pub property: String,
    /// "known" (suppresses matching failures, prints KNOWN-FINDING) or "fixed" (suppresses nothing)
    pub status: String,
    /// oracle clause the failure must carry
    pub clause: String,
    /// substring the failure detail must contain (input class / panic site); empty = any
    #[serde(default)]
    pub detail_contains: String,
    pub what: String,
    #[serde(default)]
    pub commit: Option<String>,
    #[serde(default)]
    pub replay: Option<String>,
}

pub fn load() -> Vec<Finding> {
    let p = super::verif_root().join("known_findings.json");
    match std::fs::read(&p) {
        Ok(b) => serde_json::from_slice(&b).unwrap_or_else(|e| {
            eprintln!("known_findings.json unreadable: {e}");
            std::process::exit(2)
        }),
        Err(_) => vec![],
    }
}

pub fn matching<'a>(all: &'a [Finding], property: &str, f: &Failure) -> Option<&'a Finding> {
    all.iter().find(|k| {
        k.status == "known"
            && k.property == property
            && k.clause == f.clause
            && (k.detail_contains.is_empty() || f.detail.contains(&k.detail_contains))
    })
}
