//! Quiet panic capture: records "file: message" (no line numbers) of the first panic of a call.

use std::cell::RefCell;
use std::panic::{self, AssertUnwindSafe};
use std::sync::Once;

thread_local! {
    static LAST: RefCell<Option<String>> = const { RefCell::new(None) };
}

static INIT: Once = Once::new();

pub fn install_hook() {
    INIT.call_once(|| {
        panic::set_hook(Box::new(|info| {
            let loc = info
                .location()
                .map(|l| {
                    // keep the path tail (crate-relative) and drop line/column so signatures are stable
                    let f = l.file();
                    let f = f.rsplit_once("/src/").map(|(a, b)| {
                        let krate = a.rsplit('/').next().unwrap_or("");
                        format!("{}/src/{}", krate, b)
                    }).unwrap_or_else(|| f.to_string());
                    format!("{} (line {})", f, l.line())
                })
                .unwrap_or_else(|| "?".to_string());
            let msg = if let Some(s) = info.payload().downcast_ref::<&str>() {
                s.to_string()
            } else if let Some(s) = info.payload().downcast_ref::<String>() {
                s.clone()
            } else {
                "<non-string panic>".to_string()
            };
            let mut msg: String = msg.chars().take(300).collect();
            msg = msg.replace('\n', " ");
            LAST.with(|l| {
                let mut l = l.borrow_mut();
                if l.is_none() {
                    *l = Some(format!("{} @ {}", msg, loc));
                }
            });
        }));
    });
}

/// Run `f`, returning Err("message @ file:line") if it panicked.
pub fn catch<T>(f: impl FnOnce() -> T) -> Result<T, String> {
    install_hook();
    LAST.with(|l| *l.borrow_mut() = None);
    match panic::catch_unwind(AssertUnwindSafe(f)) {
        Ok(v) => Ok(v),
        Err(_) => Err(LAST
            .with(|l| l.borrow_mut().take())
            .unwrap_or_else(|| "<panic without message>".to_string())),
    }
}

