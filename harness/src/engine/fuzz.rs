//! Thorough tier: coverage-guided libFuzzer campaigns (cargo-fuzz crate under /verif/fuzz) whose
//! targets carry the same oracles as the generated search. Output goes to log files; only
//! counters and artifacts come back.

use serde_json::{json, Map, Value};
use std::path::PathBuf;
use std::process::{Command, Stdio};

pub struct Campaign {
    pub target: &'static str,
    /// runs per job
    pub runs: u64,
    pub jobs: usize,
    pub max_len: u32,
    /// seed inputs written to the fresh corpus directory
    pub seeds: Vec<Vec<u8>>,
}

pub struct CampaignResult {
    pub fields: Map<String, Value>,
    pub artifacts: Vec<Vec<u8>>,
    pub inconclusive: Option<String>,
}

fn fuzz_dir() -> PathBuf {
    super::verif_root().join("fuzz")
}

fn build(target: &str) -> Result<PathBuf, String> {
    let log = fuzz_dir().join(format!("build-{target}.log"));
    let out = std::fs::File::create(&log).map_err(|e| e.to_string())?;
    let err = out.try_clone().map_err(|e| e.to_string())?;
    let st = Command::new("cargo")
        .args(["+nightly", "fuzz", "build", "--fuzz-dir"])
        .arg(fuzz_dir())
        .arg(target)
        .env("CARGO_NET_OFFLINE", "true")
        .env_remove("CARGO_TARGET_DIR")
        .current_dir(fuzz_dir())
        .stdout(Stdio::from(out))
        .stderr(Stdio::from(err))
        .status()
        .map_err(|e| format!("cannot run cargo fuzz: {e}"))?;
    if !st.success() {
        return Err(format!("cargo fuzz build {target} failed (see {})", log.display()));
    }
    let bin = fuzz_dir().join("target/x86_64-unknown-linux-gnu/release").join(target);
    if !bin.exists() {
        return Err(format!("fuzz binary {} not found", bin.display()));
    }
    Ok(bin)
}

pub fn run(c: &Campaign, seed: u64) -> CampaignResult {
    let mut fields = Map::new();
    let bin = match build(c.target) {
        Ok(b) => b,
        Err(e) => return CampaignResult { fields, artifacts: vec![], inconclusive: Some(e) },
    };
    let work = fuzz_dir().join("work").join(format!("{}-{}", c.target, std::process::id()));
    let _ = std::fs::remove_dir_all(&work);
    let mut children = vec![];
    for j in 0..c.jobs {
        let dir = work.join(format!("job{j}"));
        let corpus = dir.join("corpus");
        let arts = dir.join("artifacts");
        let _ = std::fs::create_dir_all(&corpus);
        let _ = std::fs::create_dir_all(&arts);
        for (i, s) in c.seeds.iter().enumerate() {
            let _ = std::fs::write(corpus.join(format!("seed{i}")), s);
        }
        let log = std::fs::File::create(dir.join("log.txt")).expect("log file");
        let log2 = log.try_clone().expect("log file");
        let s = super::splitmix64(seed ^ super::fnv1a(c.target.as_bytes()) ^ j as u64) as u32 | 1;
        let child = Command::new(&bin)
            .arg(&corpus)
            .arg(format!("-runs={}", c.runs))
            .arg(format!("-seed={s}"))
            .arg(format!("-max_len={}", c.max_len))
            .arg("-len_control=0")
            .arg("-timeout=25")
            // runs or 20 minutes, whichever comes first (the evidence reports the runs done)
            .arg("-max_total_time=1200")
            .arg("-rss_limit_mb=4096")
            .arg("-malloc_limit_mb=512")
            .arg("-print_final_stats=1")
            .arg(format!("-artifact_prefix={}/", arts.display()))
            .env("ASAN_OPTIONS", "detect_odr_violation=0:abort_on_error=1")
            .env("RUST_BACKTRACE", "0")
            .env("VERIF_ROOT", super::verif_root())
            .current_dir(&dir)
            .stdout(Stdio::from(log))
            .stderr(Stdio::from(log2))
            .spawn();
        children.push((dir, child));
    }
    let mut total_runs = 0u64;
    let mut max_cov = 0u64;
    let mut corpus_units = 0u64;
    let mut artifacts = vec![];
    let mut notes = vec![];
    let mut inconclusive = None;
    for (dir, child) in children {
        let status = match child {
            Ok(mut ch) => loop {
                // a running campaign is progress as far as the no-progress watchdog is concerned
                match ch.try_wait() {
                    Ok(Some(st)) => break Some(st),
                    Ok(None) => {
                        super::runner::heartbeat();
                        std::thread::sleep(std::time::Duration::from_millis(500));
                    }
                    Err(_) => break None,
                }
            },
            Err(e) => {
                inconclusive = Some(format!("cannot start fuzz target: {e}"));
                None
            }
        };
        let log = std::fs::read_to_string(dir.join("log.txt")).unwrap_or_default();
        for l in log.lines() {
            if let Some(rest) = l.strip_prefix("stat::number_of_executed_units:") {
                total_runs += rest.trim().parse::<u64>().unwrap_or(0);
            }
            if l.starts_with('#') && l.contains("cov:") {
                let grab = |key: &str| l.split(key).nth(1).and_then(|r| r.split_whitespace().next()).and_then(|v| v.split('/').next()).and_then(|v| v.trim_end_matches(|c: char| !c.is_ascii_digit()).parse::<u64>().ok());
                if let Some(v) = grab("cov: ") {
                    max_cov = max_cov.max(v);
                }
                if let Some(v) = grab("corp: ") {
                    corpus_units = corpus_units.max(v);
                }
            }
            if l.contains("FUZZ-VIOLATION") || l.starts_with("SUMMARY") {
                notes.push(l.chars().take(300).collect::<String>());
            }
        }
        if let Ok(rd) = std::fs::read_dir(dir.join("artifacts")) {
            for e in rd.flatten() {
                if let Ok(b) = std::fs::read(e.path()) {
                    artifacts.push(b);
                }
            }
        }
        if let Some(st) = status {
            if !st.success() && artifacts.is_empty() && inconclusive.is_none() {
                inconclusive = Some(format!("fuzz job in {} ended abnormally without an artifact ({st})", dir.display()));
            }
        }
    }
    fields.insert(
        format!("fuzz_{}", c.target),
        json!({"engine": "libFuzzer (cargo-fuzz, ASan, debug assertions)", "jobs": c.jobs, "runs_total": total_runs, "coverage_edges": max_cov, "corpus_units": corpus_units, "seed_inputs": c.seeds.len(), "max_len": c.max_len, "artifacts": artifacts.len(), "notes": notes}),
    );
    if inconclusive.is_none() {
        let _ = std::fs::remove_dir_all(&work);
    }
    CampaignResult { fields, artifacts, inconclusive }
}
