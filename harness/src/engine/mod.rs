//! The engine: property trait, outcome type, seeded sharded runner with proptest-driven
//! generation and shrinking, bounded enumeration, replay, known-finding matching, evidence.

pub mod alloc;
pub mod evidence;
pub mod fuzz;
pub mod known;
pub mod panics;
pub mod runner;
pub mod stage;
pub mod worker;

use proptest::strategy::BoxedStrategy;
use serde::{de::DeserializeOwned, Deserialize, Serialize};
use std::sync::Arc;

#[derive(Clone, Copy, PartialEq, Eq, Debug)]
pub enum Tier {
    Quick,
    Thorough,
}

impl Tier {
    pub fn name(self) -> &'static str {
        match self {
            Tier::Quick => "quick",
            Tier::Thorough => "thorough",
        }
    }
    /// pick a budget by tier
    pub fn pick(self, quick: u64, thorough: u64) -> u64 {
        match self {
            Tier::Quick => quick,
            Tier::Thorough => thorough,
        }
    }
}

#[derive(Serialize, Deserialize, Clone, Debug, PartialEq)]
pub struct Failure {
    /// the clause of the property's oracle that was violated (stable identifier)
    pub clause: String,
    /// human readable detail; for panics: "file: message" without line numbers
    pub detail: String,
}

#[derive(Serialize, Deserialize, Clone, Debug, Default)]
pub struct Outcome {
    /// number of property evaluations this case stands for (block cases report > 1)
    pub evals: u64,
    /// how many of them were non-trivial by the property's rule
    pub nontrivial: u64,
    /// distinctness key of the (single) case; None for block cases that are distinct by construction
    pub key: Option<u64>,
    /// generator/oracle class labels of this case
    pub labels: Vec<String>,
    pub fail: Option<Failure>,
    /// optional short note describing what happened (for samples)
    pub note: Option<String>,
}

impl Outcome {
    pub fn new() -> Self {
        Outcome {
            evals: 1,
            ..Default::default()
        }
    }
    pub fn label(&mut self, l: impl Into<String>) {
        let l = l.into();
        if !self.labels.contains(&l) {
            self.labels.push(l);
        }
    }
    pub fn nontrivial_key(&mut self, key: u64) {
        self.nontrivial = 1;
        self.key = Some(key);
    }
    /// record the first failure only
    pub fn fail(&mut self, clause: &str, detail: impl Into<String>) {
        if self.fail.is_none() {
            self.fail = Some(Failure {
                clause: clause.to_string(),
                detail: detail.into(),
            });
        }
    }
    pub fn failed(&self) -> bool {
        self.fail.is_some()
    }
}

pub type StratFactory<C> = Arc<dyn Fn() -> BoxedStrategy<C> + Send + Sync>;
pub type EnumFn<C> = Arc<dyn Fn(u64) -> Option<C> + Send + Sync>;

pub enum Phase<C> {
    /// `cases` cases drawn from a proptest strategy (shrunk on failure)
    Random {
        name: &'static str,
        cases: u64,
        strat: StratFactory<C>,
    },
    /// cases `gen(0) .. gen(total-1)` in index order (None = skip); `exhaustive` says the
    /// index range covers a stated finite sub-domain completely
    Enumerate {
        name: &'static str,
        total: u64,
        gen: EnumFn<C>,
        exhaustive: bool,
    },
}

pub trait Property: Send + Sync + Sized + 'static {
    type Case: Serialize + DeserializeOwned + std::fmt::Debug + Clone + Send + 'static;
    const ID: &'static str;
    /// evidence level: "exploration" or "fault_enumeration"
    const LEVEL: &'static str = "exploration";
    /// run every case in a child process (aborts, stack overflows, runaway allocation)
    const ISOLATED: bool = false;

    fn new(tier: Tier) -> Self;
    fn rule(&self) -> String;
    fn assumptions(&self) -> Vec<String>;
    fn phases(&self, tier: Tier) -> Vec<Phase<Self::Case>>;
    /// labels that must be seen at least once, otherwise the run is vacuous (exit 2)
    fn required_labels(&self, _tier: Tier) -> Vec<&'static str> {
        vec![]
    }
    fn check(&self, case: &Self::Case) -> Outcome;
    /// extra work after the generated search (e.g. a libFuzzer campaign in the thorough tier);
    /// returns extra evidence fields and possibly failing cases to be judged through `check`
    fn extra(&self, _tier: Tier, _seed: u64) -> ExtraResult<Self::Case> {
        ExtraResult::default()
    }
}

pub struct ExtraResult<C> {
    pub fields: serde_json::Map<String, serde_json::Value>,
    pub cases: Vec<C>,
    pub inconclusive: Option<String>,
}

impl<C> Default for ExtraResult<C> {
    fn default() -> Self {
        ExtraResult {
            fields: Default::default(),
            cases: vec![],
            inconclusive: None,
        }
    }
}

pub fn fnv1a(data: &[u8]) -> u64 {
    let mut h: u64 = 0xcbf29ce484222325;
    for b in data {
        h ^= *b as u64;
        h = h.wrapping_mul(0x100000001b3);
    }
    h
}

pub fn splitmix64(mut x: u64) -> u64 {
    x = x.wrapping_add(0x9E3779B97F4A7C15);
    let mut z = x;
    z = (z ^ (z >> 30)).wrapping_mul(0xBF58476D1CE4E5B9);
    z = (z ^ (z >> 27)).wrapping_mul(0x94D049BB133111EB);
    z ^ (z >> 31)
}

/// deterministic pseudo-random bytes (for content generation from a small seed)
pub fn lcg_bytes(seed: u64, len: usize) -> Vec<u8> {
    let mut out = Vec::with_capacity(len + 8);
    let mut s = seed;
    while out.len() < len {
        s = splitmix64(s);
        out.extend_from_slice(&s.to_le_bytes());
    }
    out.truncate(len);
    out
}

/// serde helper: Vec<u8> as hex string
pub mod hexser {
    use serde::{Deserialize, Deserializer, Serializer};
    pub fn serialize<S: Serializer>(v: &Vec<u8>, s: S) -> Result<S::Ok, S::Error> {
        s.serialize_str(&hex::encode(v))
    }
    pub fn deserialize<'de, D: Deserializer<'de>>(d: D) -> Result<Vec<u8>, D::Error> {
        let s = String::deserialize(d)?;
        hex::decode(&s).map_err(serde::de::Error::custom)
    }
}

pub fn verif_root() -> std::path::PathBuf {
    std::env::var_os("VERIF_ROOT")
        .map(std::path::PathBuf::from)
        .unwrap_or_else(|| std::path::PathBuf::from("/verif"))
}
