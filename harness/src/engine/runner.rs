//! Seeded, sharded execution of a property's phases; shrinking; replay; verdict.

use super::evidence::{self, truncate_json};
use super::known::{self, Finding};
use super::worker::{ExecResult, Worker};
use super::{fnv1a, splitmix64, Failure, Outcome, Phase, Property, Tier};
use proptest::strategy::{Strategy, ValueTree};
use proptest::test_runner::{Config, RngAlgorithm, TestRng, TestRunner};
use serde_json::{json, Value};
use std::collections::{BTreeMap, HashSet};
use std::sync::atomic::{AtomicBool, AtomicU64, AtomicUsize, Ordering};
use std::sync::Mutex;
use std::time::{Duration, Instant};

const RANDOM_SHARDS: u64 = 32;
const ENUM_SHARDS: u64 = 64;
const KEY_CAP: usize = 5_000_000;
const MAX_SHRINK_EXECS: u32 = 1500;
const WORKER_TIMEOUT: Duration = Duration::from_secs(180);

pub struct Inconclusive(pub String);

/// runs one case either in-process or in this shard's worker child
pub struct Exec<'a, P: Property> {
    prop: &'a P,
    tier: Tier,
    worker: Option<Worker>,
}

impl<'a, P: Property> Exec<'a, P> {
    pub fn new(prop: &'a P, tier: Tier) -> Self {
        Exec {
            prop,
            tier,
            worker: None,
        }
    }

    pub fn exec(&mut self, case: &P::Case) -> Result<Outcome, Inconclusive> {
        PROGRESS.fetch_add(1, Ordering::Relaxed);
        if !P::ISOLATED {
            return match super::panics::catch(|| self.prop.check(case)) {
                Ok(o) => match &o.fail {
                    Some(f) if f.clause.starts_with("harness-") => Err(Inconclusive(format!("{}: {}", f.clause, f.detail))),
                    _ => Ok(o),
                },
                Err(p) => Err(Inconclusive(format!(
                    "harness bug: panic escaped the property's own capture: {p}"
                ))),
            };
        }
        let js = serde_json::to_vec(case).map_err(|e| Inconclusive(format!("serialize: {e}")))?;
        if self.worker.is_none() {
            self.worker = Some(
                Worker::spawn(P::ID, self.tier)
                    .map_err(|e| Inconclusive(format!("cannot spawn worker: {e}")))?,
            );
        }
        match self.worker.as_mut().unwrap().exec(&js, WORKER_TIMEOUT) {
            ExecResult::Done(o) => {
                if let Some(f) = &o.fail {
                    if f.clause.starts_with("harness-") {
                        return Err(Inconclusive(format!("{}: {}", f.clause, f.detail)));
                    }
                }
                Ok(o)
            }
            ExecResult::Died(note) => {
                self.worker = None;
                let mut o = Outcome::new();
                o.label("worker-died");
                o.fail("process-died", note);
                Ok(o)
            }
            ExecResult::Timeout => {
                self.worker = None;
                Err(Inconclusive(format!(
                    "worker silent for {}s on one case (watchdog; not a verdict)",
                    WORKER_TIMEOUT.as_secs()
                )))
            }
        }
    }
}

#[derive(Default)]
struct Agg {
    evals: u64,
    nontrivial_unkeyed: u64,
    keys: HashSet<u64>,
    keys_capped: bool,
    labels: BTreeMap<String, u64>,
    excluded_known: BTreeMap<String, u64>,
    samples: Vec<Value>,
    rejects: u64,
}

impl Agg {
    fn absorb(&mut self, o: &Outcome) {
        self.evals += o.evals;
        match o.key {
            Some(k) if o.nontrivial > 0 => {
                if self.keys.len() < KEY_CAP {
                    self.keys.insert(k);
                } else {
                    self.keys_capped = true;
                }
            }
            _ => self.nontrivial_unkeyed += o.nontrivial,
        }
        for l in &o.labels {
            *self.labels.entry(l.clone()).or_insert(0) += o.evals.max(1);
        }
    }
    fn merge(&mut self, other: Agg) {
        self.evals += other.evals;
        self.nontrivial_unkeyed += other.nontrivial_unkeyed;
        for k in other.keys {
            if self.keys.len() < KEY_CAP {
                self.keys.insert(k);
            } else {
                self.keys_capped = true;
            }
        }
        self.keys_capped |= other.keys_capped;
        for (l, n) in other.labels {
            *self.labels.entry(l).or_insert(0) += n;
        }
        for (l, n) in other.excluded_known {
            *self.excluded_known.entry(l).or_insert(0) += n;
        }
        self.samples.extend(other.samples);
        self.rejects += other.rejects;
    }
}

struct Violation {
    phase: String,
    order: u64,
    case_json: Value,
    failure: Failure,
    shrink_execs: u32,
}

fn seed_from_env() -> u64 {
    match std::env::var("VERIF_SEED") {
        Ok(s) => match s.trim().parse::<i128>() {
            Ok(v) => v as u64,
            Err(_) => fnv1a(s.as_bytes()),
        },
        Err(_) => 0,
    }
}

fn threads() -> usize {
    std::env::var("VCHECK_THREADS")
        .ok()
        .and_then(|s| s.parse().ok())
        .unwrap_or_else(|| {
            std::thread::available_parallelism()
                .map(|n| n.get())
                .unwrap_or(8)
        })
        .max(1)
}

fn sample_of<C: serde::Serialize>(phase: &str, case: &C, o: &Outcome) -> Value {
    let c = serde_json::to_value(case).unwrap_or(Value::Null);
    json!({"phase": phase, "case": truncate_json(&c, 160, 12), "labels": o.labels, "note": o.note})
}

fn write_replay(id: &str, v: &Violation) -> std::path::PathBuf {
    let dir = super::verif_root().join("replays-out");
    let _ = std::fs::create_dir_all(&dir);
    let body = json!({
        "property": id,
        "phase": v.phase,
        "failure": {"clause": v.failure.clause, "detail": v.failure.detail},
        "case": v.case_json,
    });
    let text = serde_json::to_string_pretty(&body).unwrap();
    let h = fnv1a(text.as_bytes());
    let path = dir.join(format!("{}-{:016x}.json", id, h));
    let _ = std::fs::write(&path, text);
    path
}

pub fn load_case<P: Property>(path: &std::path::Path) -> Result<P::Case, String> {
    let b = std::fs::read(path).map_err(|e| format!("{}: {e}", path.display()))?;
    let v: Value = serde_json::from_slice(&b).map_err(|e| format!("{}: {e}", path.display()))?;
    let c = v.get("case").cloned().unwrap_or(v);
    serde_json::from_value(c).map_err(|e| format!("{}: {e}", path.display()))
}

/// `vcheck replay <id> <file>`
pub fn replay<P: Property>(tier: Tier, path: &std::path::Path) -> i32 {
    let prop = P::new(tier);
    let known = known::load();
    let case = match load_case::<P>(path) {
        Ok(c) => c,
        Err(e) => {
            eprintln!("cannot load replay: {e}");
            return 2;
        }
    };
    let mut ex = Exec::new(&prop, tier);
    match ex.exec(&case) {
        Err(Inconclusive(m)) => {
            println!("INCONCLUSIVE property={} {}", P::ID, m);
            2
        }
        Ok(o) => match &o.fail {
            None => {
                println!(
                    "replay ok property={} labels={:?} note={:?}",
                    P::ID, o.labels, o.note
                );
                0
            }
            Some(f) => {
                println!("replay fails: clause={} detail={}", f.clause, f.detail);
                if let Some(k) = known::matching(&known, P::ID, f) {
                    println!("KNOWN-FINDING: property={} {}", P::ID, k.what);
                    0
                } else {
                    println!("VIOLATION property={} replay={}", P::ID, path.display());
                    1
                }
            }
        },
    }
}

/// cases finished so far (all threads); the watchdog below ends the run with exit 2 when this
/// does not move for a long time (a hang is never reported as a verdict)
static PROGRESS: AtomicU64 = AtomicU64::new(0);
const WATCHDOG_SECS: u64 = 900;

/// called by long-running steps that are not cases (fuzz campaigns)
pub fn heartbeat() {
    PROGRESS.fetch_add(1, Ordering::Relaxed);
}

fn start_watchdog(id: &'static str) {
    std::thread::spawn(move || {
        let mut last = PROGRESS.load(Ordering::Relaxed);
        let mut since = Instant::now();
        loop {
            std::thread::sleep(Duration::from_secs(5));
            let now = PROGRESS.load(Ordering::Relaxed);
            if now != last {
                last = now;
                since = Instant::now();
            } else if since.elapsed().as_secs() > WATCHDOG_SECS {
                // stdout may be parked on /dev/null while cases run: report on stderr as well
                eprintln!("INCONCLUSIVE property={id} watchdog: no case finished for {WATCHDOG_SECS} s (hang in the code under test or in the harness; not a verdict)");
                println!("INCONCLUSIVE property={id} watchdog: no case finished for {WATCHDOG_SECS} s");
                std::process::exit(2);
            }
        }
    });
}

pub fn run<P: Property>(tier: Tier) -> i32 {
    let t0 = Instant::now();
    start_watchdog(P::ID);
    let seed = seed_from_env();
    let prop = P::new(tier);
    let known: Vec<Finding> = known::load();
    let nthreads = threads();
    let id_hash = fnv1a(P::ID.as_bytes());

    let mut total = Agg::default();
    let mut violation: Option<Violation> = None;
    let mut inconclusive: Option<String> = None;
    let mut observed_known: BTreeMap<String, u64> = BTreeMap::new();
    let mut replayed = 0u64;
    let mut exhaustive_phases: Vec<String> = vec![];
    let mut phase_stats: Vec<Value> = vec![];

    // library code under test may print to stdout: point fd 1 at /dev/null while cases run
    let saved_stdout = unsafe {
        let saved = libc::dup(1);
        let devnull = libc::open(b"/dev/null\0".as_ptr() as *const libc::c_char, libc::O_WRONLY);
        if saved >= 0 && devnull >= 0 {
            libc::dup2(devnull, 1);
            libc::close(devnull);
        }
        saved
    };

    // ---- 1. committed replays (regression tier) -------------------------------------------
    let rdir = super::verif_root().join("replays").join(P::ID);
    let mut files: Vec<_> = std::fs::read_dir(&rdir)
        .map(|d| d.filter_map(|e| e.ok().map(|e| e.path())).collect())
        .unwrap_or_default();
    files.retain(|p: &std::path::PathBuf| p.extension().map(|e| e == "json").unwrap_or(false));
    files.sort();
    {
        let mut ex = Exec::new(&prop, tier);
        for f in &files {
            let case = match load_case::<P>(f) {
                Ok(c) => c,
                Err(e) => {
                    inconclusive = Some(format!("replay file unreadable: {e}"));
                    break;
                }
            };
            match ex.exec(&case) {
                Err(Inconclusive(m)) => {
                    inconclusive = Some(m);
                    break;
                }
                Ok(o) => {
                    replayed += 1;
                    total.absorb(&o);
                    if let Some(fl) = &o.fail {
                        if let Some(k) = known::matching(&known, P::ID, fl) {
                            *observed_known.entry(k.what.clone()).or_insert(0) += 1;
                        } else if violation.is_none() {
                            violation = Some(Violation {
                                phase: format!("replay:{}", f.display()),
                                order: 0,
                                case_json: serde_json::to_value(&case).unwrap_or(Value::Null),
                                failure: fl.clone(),
                                shrink_execs: 0,
                            });
                        }
                    }
                }
            }
        }
    }

    // ---- 2. generated search ------------------------------------------------------------------
    let phases = prop.phases(tier);
    for (pi, phase) in phases.iter().enumerate() {
        if violation.is_some() || inconclusive.is_some() {
            break;
        }
        let tp = Instant::now();
        let (pname, nshards) = match phase {
            Phase::Random { name, .. } => (*name, RANDOM_SHARDS),
            Phase::Enumerate { name, total, .. } => (*name, ENUM_SHARDS.min((*total).max(1))),
        };
        let next = AtomicUsize::new(0);
        let stop = AtomicBool::new(false);
        let fail_order = AtomicU64::new(u64::MAX);
        let agg = Mutex::new(Agg::default());
        let viol: Mutex<Option<Violation>> = Mutex::new(None);
        let inconc: Mutex<Option<String>> = Mutex::new(None);

        std::thread::scope(|scope| {
            for _ in 0..nthreads.min(nshards as usize) {
                scope.spawn(|| {
                    let mut ex = Exec::new(&prop, tier);
                    loop {
                        let shard = next.fetch_add(1, Ordering::SeqCst) as u64;
                        if shard >= nshards || stop.load(Ordering::SeqCst) {
                            break;
                        }
                        let mut local = Agg::default();
                        let res = super::panics::catch(|| match phase {
                            Phase::Random { cases, strat, .. } => {
                                let per = cases / nshards + u64::from(shard < cases % nshards);
                                let s = splitmix64(
                                    seed ^ id_hash ^ ((pi as u64) << 40) ^ shard.wrapping_mul(0x9E37),
                                );
                                run_random_shard::<P>(
                                    &mut ex, pname, per, s, shard, strat, &known, &mut local,
                                    &stop,
                                )
                            }
                            Phase::Enumerate { total, gen, .. } => {
                                let chunk = total.div_ceil(nshards);
                                let lo = shard * chunk;
                                let hi = ((shard + 1) * chunk).min(*total);
                                run_enum_shard::<P>(
                                    &mut ex, pname, lo, hi, gen, &known, &mut local, &fail_order,
                                )
                            }
                        });
                        let res = match res {
                            Ok(r) => r,
                            Err(p) => Err(Inconclusive(format!("harness bug: panic in the runner/generator: {p}"))),
                        };
                        agg.lock().unwrap().merge(local);
                        match res {
                            Ok(None) => {}
                            Ok(Some(v)) => {
                                if matches!(phase, Phase::Random { .. }) {
                                    stop.store(true, Ordering::SeqCst);
                                }
                                let mut g = viol.lock().unwrap();
                                if g.as_ref().map(|o| v.order < o.order).unwrap_or(true) {
                                    *g = Some(v);
                                }
                            }
                            Err(Inconclusive(m)) => {
                                stop.store(true, Ordering::SeqCst);
                                *inconc.lock().unwrap() = Some(m);
                            }
                        }
                    }
                });
            }
        });
        let a = agg.into_inner().unwrap();
        phase_stats.push(json!({
            "phase": pname,
            "evaluations": a.evals,
            "wall_s": (tp.elapsed().as_secs_f64() * 1000.0).round() / 1000.0,
        }));
        if let Phase::Enumerate {
            exhaustive: true, ..
        } = phase
        {
            exhaustive_phases.push(pname.to_string());
        }
        for (k, n) in &a.excluded_known {
            *observed_known.entry(k.clone()).or_insert(0) += n;
        }
        total.merge(a);
        if let Some(m) = inconc.into_inner().unwrap() {
            inconclusive = Some(m);
        }
        if let Some(v) = viol.into_inner().unwrap() {
            violation = Some(v);
        }
    }

    // ---- 3. extra (fuzz campaigns etc.) ----------------------------------------------------
    let mut extra_fields = serde_json::Map::new();
    if violation.is_none() && inconclusive.is_none() {
        let extra = prop.extra(tier, seed);
        extra_fields = extra.fields;
        if let Some(m) = extra.inconclusive {
            inconclusive = Some(m);
        }
        let mut ex = Exec::new(&prop, tier);
        let mut not_reproduced = 0usize;
        for case in &extra.cases {
            match ex.exec(case) {
                Err(Inconclusive(m)) => {
                    inconclusive = Some(m);
                    break;
                }
                Ok(o) => {
                    total.absorb(&o);
                    if o.fail.is_none() {
                        not_reproduced += 1;
                    }
                    if let Some(fl) = &o.fail {
                        if let Some(k) = known::matching(&known, P::ID, fl) {
                            *observed_known.entry(k.what.clone()).or_insert(0) += 1;
                        } else {
                            violation = Some(Violation {
                                phase: "extra".into(),
                                order: 0,
                                case_json: serde_json::to_value(case).unwrap_or(Value::Null),
                                failure: fl.clone(),
                                shrink_execs: 0,
                            });
                            break;
                        }
                    }
                }
            }
        }
        // a fuzzer artifact (crash, OOM, timeout) that the release harness cannot reproduce is
        // neither a pass nor a violation
        if not_reproduced > 0 && violation.is_none() && inconclusive.is_none() {
            inconclusive = Some(format!("{not_reproduced} libFuzzer artifact(s) (crash / out-of-memory / timeout in the ASan build) do not reproduce as a violation in the release harness - see the fuzz notes in the evidence and /verif/fuzz/work"));
        }
    }

    unsafe {
        if saved_stdout >= 0 {
            libc::dup2(saved_stdout, 1);
            libc::close(saved_stdout);
        }
    }

    // ---- 4. vacuity guard -------------------------------------------------------------------
    if violation.is_none() && inconclusive.is_none() {
        for l in prop.required_labels(tier) {
            if total.labels.get(l).copied().unwrap_or(0) == 0 {
                inconclusive = Some(format!(
                    "vacuity guard: required class '{l}' has no members (generator bug)"
                ));
                break;
            }
        }
    }

    // ---- 5. evidence + verdict ---------------------------------------------------------------
    let distinct = total.keys.len() as u64 + total.nontrivial_unkeyed;
    let mut samples = total.samples.clone();
    samples.truncate(12);
    if samples.is_empty() {
        samples.push(json!({"note": "no non-trivial sample recorded"}));
    }
    let mut rule = prop.rule();
    if total.keys_capped {
        rule.push_str(" [distinct count is a lower bound: key set capped]");
    }
    let mut coverage = json!({
        "evaluations": total.evals,
        "distinct_nontrivial": distinct,
        "rule": rule,
        "samples": samples,
        "classes": total.labels,
        "phases": phase_stats,
        "replayed": replayed,
        "excluded_known": observed_known,
        "generator_rejects": total.rejects,
        "exhaustive": !exhaustive_phases.is_empty(),
        "exhaustive_subdomains": exhaustive_phases,
        "threads": nthreads,
    });
    for (k, v) in extra_fields {
        coverage[k] = v;
    }
    let mut replay_path = None;
    if let Some(v) = &violation {
        let p = if v.phase.starts_with("replay:") {
            std::path::PathBuf::from(v.phase.trim_start_matches("replay:"))
        } else {
            write_replay(P::ID, v)
        };
        coverage["violation"] = json!({
            "phase": v.phase, "clause": v.failure.clause, "detail": v.failure.detail,
            "shrink_executions": v.shrink_execs, "replay": p.display().to_string(),
        });
        replay_path = Some(p);
    }
    if let Some(m) = &inconclusive {
        coverage["inconclusive"] = json!(m);
    }
    let wall = t0.elapsed().as_secs_f64();
    evidence::write(
        P::ID,
        tier,
        seed,
        P::LEVEL,
        coverage,
        prop.assumptions(),
        wall,
        u64::from(violation.is_some()),
    );

    println!(
        "{} tier={} seed={} evaluations={} distinct_nontrivial={} replayed={} wall={:.1}s",
        P::ID,
        tier.name(),
        seed,
        total.evals,
        distinct,
        replayed,
        wall
    );
    for k in known.iter().filter(|k| k.property == P::ID && k.status == "known") {
        if let Some(n) = observed_known.get(&k.what) {
            println!("KNOWN-FINDING: property={} {} (observed {}x)", P::ID, k.what, n);
        }
    }
    if let Some(v) = &violation {
        println!(
            "violated clause={} detail={}",
            v.failure.clause, v.failure.detail
        );
        println!(
            "VIOLATION property={} replay={}",
            P::ID,
            replay_path.unwrap().display()
        );
        return 1;
    }
    if let Some(m) = inconclusive {
        println!("INCONCLUSIVE property={} {}", P::ID, m);
        return 2;
    }
    println!("OK property={}", P::ID);
    0
}

#[allow(clippy::too_many_arguments)]
fn run_random_shard<P: Property>(
    ex: &mut Exec<P>,
    pname: &str,
    cases: u64,
    seed: u64,
    shard: u64,
    strat: &super::StratFactory<P::Case>,
    known: &[Finding],
    local: &mut Agg,
    stop: &AtomicBool,
) -> Result<Option<Violation>, Inconclusive> {
    let strat = strat();
    let mut seed32 = [0u8; 32];
    for (i, chunk) in seed32.chunks_mut(8).enumerate() {
        chunk.copy_from_slice(&splitmix64(seed.wrapping_add(i as u64)).to_le_bytes());
    }
    let cfg = Config {
        failure_persistence: None,
        ..Config::default()
    };
    let mut runner = TestRunner::new_with_rng(cfg, TestRng::from_seed(RngAlgorithm::ChaCha, &seed32));
    let mut done = 0u64;
    let mut rejects_in_a_row = 0u32;
    while done < cases {
        if stop.load(Ordering::Relaxed) {
            break;
        }
        let mut tree = match strat.new_tree(&mut runner) {
            Ok(t) => t,
            Err(_) => {
                local.rejects += 1;
                rejects_in_a_row += 1;
                if rejects_in_a_row > 10_000 {
                    return Err(Inconclusive("generator rejects everything".into()));
                }
                continue;
            }
        };
        rejects_in_a_row = 0;
        done += 1;
        let case = tree.current();
        let o = ex.exec(&case)?;
        local.absorb(&o);
        if o.nontrivial > 0 && local.samples.len() < 2 {
            local.samples.push(sample_of(pname, &case, &o));
        }
        let Some(f) = o.fail.clone() else { continue };
        if let Some(k) = known::matching(known, P::ID, &f) {
            *local.excluded_known.entry(k.what.clone()).or_insert(0) += 1;
            continue;
        }
        // genuine, unlisted failure: shrink while the same clause keeps failing
        stop.store(true, Ordering::SeqCst);
        let mut best = case;
        let mut best_fail = f.clone();
        let mut execs = 0u32;
        'outer: while tree.simplify() {
            loop {
                execs += 1;
                if execs > MAX_SHRINK_EXECS {
                    break 'outer;
                }
                let c = tree.current();
                let o2 = ex.exec(&c)?;
                let same = o2
                    .fail
                    .as_ref()
                    .map(|g| g.clause == f.clause && known::matching(known, P::ID, g).is_none())
                    .unwrap_or(false);
                if same {
                    best = c;
                    best_fail = o2.fail.unwrap();
                    break;
                }
                if !tree.complicate() {
                    break 'outer;
                }
            }
        }
        return Ok(Some(Violation {
            phase: pname.to_string(),
            order: shard,
            case_json: serde_json::to_value(&best).unwrap_or(Value::Null),
            failure: best_fail,
            shrink_execs: execs,
        }));
    }
    Ok(None)
}

#[allow(clippy::too_many_arguments)]
fn run_enum_shard<P: Property>(
    ex: &mut Exec<P>,
    pname: &str,
    lo: u64,
    hi: u64,
    gen: &super::EnumFn<P::Case>,
    known: &[Finding],
    local: &mut Agg,
    fail_order: &AtomicU64,
) -> Result<Option<Violation>, Inconclusive> {
    for idx in lo..hi {
        if idx > fail_order.load(Ordering::Relaxed) {
            break;
        }
        let Some(case) = gen(idx) else { continue };
        let o = ex.exec(&case)?;
        local.absorb(&o);
        if o.nontrivial > 0 && local.samples.len() < 1 {
            local.samples.push(sample_of(pname, &case, &o));
        }
        let Some(f) = o.fail.clone() else { continue };
        if let Some(k) = known::matching(known, P::ID, &f) {
            *local.excluded_known.entry(k.what.clone()).or_insert(0) += 1;
            continue;
        }
        fail_order.fetch_min(idx, Ordering::SeqCst);
        return Ok(Some(Violation {
            phase: pname.to_string(),
            order: idx,
            case_json: serde_json::to_value(&case).unwrap_or(Value::Null),
            failure: f,
            shrink_execs: 0,
        }));
    }
    Ok(None)
}
