//! Worker child processes for isolated properties. Cases are streamed as length-prefixed JSON
//! frames; a child that dies or hangs is attributed to the case it was executing.

use super::{Outcome, Property, Tier};
use std::io::{Read, Write};
use std::os::unix::io::FromRawFd;
use std::os::unix::process::ExitStatusExt;
use std::process::{Child, ChildStdin, Command, Stdio};
use std::sync::atomic::{AtomicU64, Ordering};
use std::sync::mpsc::{channel, Receiver, RecvTimeoutError};
use std::time::Duration;

pub enum ExecResult {
    Done(Outcome),
    Died(String),
    Timeout,
}

pub struct Worker {
    child: Child,
    stdin: Option<ChildStdin>,
    rx: Receiver<Option<Vec<u8>>>,
    errfile: std::path::PathBuf,
}

static WORKER_SEQ: AtomicU64 = AtomicU64::new(0);

pub fn scratch_dir() -> std::path::PathBuf {
    let base = std::env::var_os("VCHECK_SCRATCH")
        .map(std::path::PathBuf::from)
        .unwrap_or_else(|| std::env::temp_dir().join(format!("vcheck-{}", std::process::id())));
    let _ = std::fs::create_dir_all(&base);
    base
}

impl Worker {
    pub fn spawn(prop_id: &str, tier: Tier) -> std::io::Result<Worker> {
        let exe = std::env::current_exe()?;
        let n = WORKER_SEQ.fetch_add(1, Ordering::Relaxed);
        let errfile = scratch_dir().join(format!("worker-{}-{}.err", prop_id, n));
        let err = std::fs::File::create(&errfile)?;
        let mut child = Command::new(exe)
            .arg("worker")
            .arg(prop_id)
            .arg(tier.name())
            .env("VCHECK_SCRATCH", scratch_dir())
            .env("RUST_BACKTRACE", "0")
            .stdin(Stdio::piped())
            .stdout(Stdio::piped())
            .stderr(Stdio::from(err))
            .spawn()?;
        let stdin = child.stdin.take();
        let mut stdout = child.stdout.take().unwrap();
        let (tx, rx) = channel();
        std::thread::spawn(move || loop {
            let mut len = [0u8; 4];
            if stdout.read_exact(&mut len).is_err() {
                let _ = tx.send(None);
                return;
            }
            let n = u32::from_le_bytes(len) as usize;
            let mut buf = vec![0u8; n];
            if stdout.read_exact(&mut buf).is_err() {
                let _ = tx.send(None);
                return;
            }
            if tx.send(Some(buf)).is_err() {
                return;
            }
        });
        Ok(Worker {
            child,
            stdin,
            rx,
            errfile,
        })
    }

    pub fn exec(&mut self, case_json: &[u8], timeout: Duration) -> ExecResult {
        let mut frame = Vec::with_capacity(case_json.len() + 4);
        frame.extend_from_slice(&(case_json.len() as u32).to_le_bytes());
        frame.extend_from_slice(case_json);
        let write_ok = match self.stdin.as_mut() {
            Some(s) => s.write_all(&frame).and_then(|_| s.flush()).is_ok(),
            None => false,
        };
        if !write_ok {
            return ExecResult::Died(self.death_note());
        }
        match self.rx.recv_timeout(timeout) {
            Ok(Some(buf)) => match serde_json::from_slice::<Outcome>(&buf) {
                Ok(o) => ExecResult::Done(o),
                Err(e) => ExecResult::Died(format!("garbled worker reply: {e}")),
            },
            Ok(None) | Err(RecvTimeoutError::Disconnected) => ExecResult::Died(self.death_note()),
            Err(RecvTimeoutError::Timeout) => {
                let _ = self.child.kill();
                let _ = self.child.wait();
                ExecResult::Timeout
            }
        }
    }

    fn death_note(&mut self) -> String {
        self.stdin = None;
        let status = self.child.wait();
        let mut note = match status {
            Ok(st) => match st.signal() {
                Some(sig) => format!("worker killed by signal {}", sig),
                None => format!("worker exited with status {:?}", st.code()),
            },
            Err(e) => format!("worker wait failed: {e}"),
        };
        if let Ok(e) = std::fs::read(&self.errfile) {
            let tail = String::from_utf8_lossy(&e);
            let tail: String = tail.lines().filter(|l| !l.starts_with("note:")).take(3).collect::<Vec<_>>().join(" | ");
            // drop addresses / byte counts so the note is a stable signature
            note.push_str(": ");
            note.push_str(&tail.chars().take(300).collect::<String>());
        }
        note
    }
}

impl Drop for Worker {
    fn drop(&mut self) {
        self.stdin = None;
        let _ = self.child.kill();
        let _ = self.child.wait();
        let _ = std::fs::remove_file(&self.errfile);
    }
}

/// child side: serve cases until stdin closes
pub fn serve<P: Property>(tier: Tier) -> ! {
    // protocol goes over a private copy of stdout; fd 1 itself is pointed at /dev/null because
    // library code under test may print to stdout
    let (mut out, mut inp) = unsafe {
        let proto = libc::dup(1);
        let devnull = libc::open(b"/dev/null\0".as_ptr() as *const libc::c_char, libc::O_WRONLY);
        libc::dup2(devnull, 1);
        // address-space backstop
        let lim = libc::rlimit {
            rlim_cur: 24 << 30,
            rlim_max: 24 << 30,
        };
        libc::setrlimit(libc::RLIMIT_AS, &lim);
        // no legitimate single allocation of a worker comes near 1 GiB
        super::alloc::HARD_CAP.store((1 << 30) + 4096, std::sync::atomic::Ordering::Relaxed);
        (std::fs::File::from_raw_fd(proto), std::fs::File::from_raw_fd(0))
    };
    super::panics::install_hook();
    super::stage::install_fatal_handler();
    // cases run on a thread with the stack Rust gives every spawned thread (2 MiB) - the stack a
    // library user's worker thread has - rather than on the 8 MiB main-thread stack
    let t = std::thread::Builder::new().name("case".into()).stack_size(2 << 20).spawn(move || serve_loop::<P>(tier, &mut out, &mut inp)).expect("spawn case thread");
    let _ = t.join();
    // the loop only ends through exit(); a panic that escaped it is an abnormal end
    std::process::exit(101);
}

fn serve_loop<P: Property>(tier: Tier, out: &mut std::fs::File, inp: &mut std::fs::File) {
    let prop = P::new(tier);
    loop {
        let mut len = [0u8; 4];
        if inp.read_exact(&mut len).is_err() {
            std::process::exit(0);
        }
        let n = u32::from_le_bytes(len) as usize;
        let mut buf = vec![0u8; n];
        if inp.read_exact(&mut buf).is_err() {
            std::process::exit(0);
        }
        let outcome = match serde_json::from_slice::<P::Case>(&buf) {
            Ok(case) => match super::panics::catch(|| prop.check(&case)) {
                Ok(o) => o,
                Err(p) => {
                    let mut o = Outcome::new();
                    o.fail("harness-panic", p);
                    o
                }
            },
            Err(e) => {
                let mut o = Outcome::new();
                o.fail("harness-decode", format!("{e}"));
                o
            }
        };
        let js = serde_json::to_vec(&outcome).unwrap();
        let mut frame = Vec::with_capacity(js.len() + 4);
        frame.extend_from_slice(&(js.len() as u32).to_le_bytes());
        frame.extend_from_slice(&js);
        if out.write_all(&frame).is_err() {
            std::process::exit(0);
        }
    }
}
