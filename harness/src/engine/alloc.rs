//! Counting global allocator: per-thread largest single request and total bytes requested.
//! Requests above a hard cap are refused (null), which makes the standard library abort the
//! process exactly as a real allocation failure would; isolated properties observe that as a
//! dead worker.

use std::alloc::{GlobalAlloc, Layout, System};
use std::cell::Cell;
use std::sync::atomic::{AtomicUsize, Ordering};

pub struct Counting;

thread_local! {
    static MAX_REQ: Cell<usize> = const { Cell::new(0) };
    static TOTAL: Cell<usize> = const { Cell::new(0) };
}

/// refuse single requests at or above this many bytes (default 8 GiB)
pub static HARD_CAP: AtomicUsize = AtomicUsize::new(8 << 30);

#[inline]
fn note(size: usize) {
    let _ = MAX_REQ.try_with(|m| {
        if size > m.get() {
            m.set(size)
        }
    });
    let _ = TOTAL.try_with(|t| t.set(t.get().saturating_add(size)));
}

unsafe impl GlobalAlloc for Counting {
    unsafe fn alloc(&self, l: Layout) -> *mut u8 {
        note(l.size());
        if l.size() >= HARD_CAP.load(Ordering::Relaxed) {
            return std::ptr::null_mut();
        }
        System.alloc(l)
    }
    unsafe fn dealloc(&self, p: *mut u8, l: Layout) {
        System.dealloc(p, l)
    }
    unsafe fn alloc_zeroed(&self, l: Layout) -> *mut u8 {
        note(l.size());
        if l.size() >= HARD_CAP.load(Ordering::Relaxed) {
            return std::ptr::null_mut();
        }
        System.alloc_zeroed(l)
    }
    unsafe fn realloc(&self, p: *mut u8, l: Layout, new_size: usize) -> *mut u8 {
        note(new_size);
        if new_size >= HARD_CAP.load(Ordering::Relaxed) {
            return std::ptr::null_mut();
        }
        System.realloc(p, l, new_size)
    }
}

pub fn reset() {
    MAX_REQ.with(|m| m.set(0));
    TOTAL.with(|t| t.set(0));
}

/// (largest single request, total bytes requested) on this thread since `reset`
pub fn snapshot() -> (usize, usize) {
    (MAX_REQ.with(|m| m.get()), TOTAL.with(|t| t.get()))
}
