//! Evidence writer (schema: /root/.vp/EVIDENCE.schema.json)

use super::Tier;
use serde_json::{json, Value};

pub fn truncate_json(v: &Value, max_str: usize, max_arr: usize) -> Value {
    match v {
        Value::String(s) if s.chars().count() > max_str => {
            let head: String = s.chars().take(max_str).collect();
            Value::String(format!("{}…(+{} chars)", head, s.chars().count() - max_str))
        }
        Value::Array(a) => {
            let mut out: Vec<Value> = a
                .iter()
                .take(max_arr)
                .map(|x| truncate_json(x, max_str, max_arr))
                .collect();
            if a.len() > max_arr {
                out.push(Value::String(format!("…(+{} items)", a.len() - max_arr)));
            }
            Value::Array(out)
        }
        Value::Object(m) => Value::Object(
            m.iter()
                .map(|(k, x)| (k.clone(), truncate_json(x, max_str, max_arr)))
                .collect(),
        ),
        other => other.clone(),
    }
}

#[allow(clippy::too_many_arguments)]
pub fn write(
    id: &str,
    tier: Tier,
    seed: u64,
    level: &str,
    coverage: Value,
    assumptions: Vec<String>,
    wall_s: f64,
    violations: u64,
) {
    let dir = super::verif_root().join("evidence");
    let _ = std::fs::create_dir_all(&dir);
    let doc = json!({
        "property_id": id,
        "tier": tier.name(),
        "seed": seed,
        "level": level,
        "coverage": coverage,
        "assumptions": assumptions,
        "wall_s": (wall_s * 1000.0).round() / 1000.0,
        "violations": violations,
    });
    let path = dir.join(format!("{}.json", id));
    let tmp = dir.join(format!(".{}.json.tmp", id));
    if std::fs::write(&tmp, serde_json::to_string_pretty(&doc).unwrap()).is_ok() {
        let _ = std::fs::rename(&tmp, &path);
    }
}
