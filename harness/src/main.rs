use vcheck::engine::{self, runner, worker, Property, Tier};
use vcheck::{props, refimpl};

#[global_allocator]
static ALLOC: engine::alloc::Counting = engine::alloc::Counting;

macro_rules! dispatch {
    ($id:expr, $f:ident, $($args:expr),*) => {
        match $id {
            "C01" => $f::<props::c01::C01>($($args),*),
            "C02" => $f::<props::c02::C02>($($args),*),
            "C03" => $f::<props::c03::C03>($($args),*),
            "C04" => $f::<props::c04::C04>($($args),*),
            "C05" => $f::<props::c05::C05>($($args),*),
            "C06" => $f::<props::c06::C06>($($args),*),
            "C07" => $f::<props::c07::C07>($($args),*),
            "C08" => $f::<props::c08::C08>($($args),*),
            "C09" => $f::<props::c09::C09>($($args),*),
            "C10" => $f::<props::c10::C10>($($args),*),
            "C11" => $f::<props::c11::C11>($($args),*),
            "C12" => $f::<props::c12::C12>($($args),*),
            "C13" => $f::<props::c13::C13>($($args),*),
            "C14" => $f::<props::c14::C14>($($args),*),
            "C15" => $f::<props::c15::C15>($($args),*),
            "C16" => $f::<props::c16::C16>($($args),*),
            "C17" => $f::<props::c17::C17>($($args),*),
            "C18" => $f::<props::c18::C18>($($args),*),
            "C19" => $f::<props::c19::C19>($($args),*),
            "C20" => $f::<props::c20::C20>($($args),*),
            other => {
                eprintln!("unknown property {other}");
                std::process::exit(2)
            }
        }
    };
}

fn run_prop<P: Property>(tier: Tier) -> i32 {
    runner::run::<P>(tier)
}
fn replay_prop<P: Property>(tier: Tier, path: &std::path::Path) -> i32 {
    runner::replay::<P>(tier, path)
}
fn serve_prop<P: Property>(tier: Tier) -> i32 {
    worker::serve::<P>(tier)
}

fn tier_of(s: Option<&String>) -> Tier {
    match s.map(|s| s.as_str()) {
        Some("thorough") => Tier::Thorough,
        _ => Tier::Quick,
    }
}

struct Quiet;
impl log::Log for Quiet {
    fn enabled(&self, _: &log::Metadata) -> bool {
        true
    }
    fn log(&self, r: &log::Record) {
        // evaluate the arguments (that is the point), discard the text
        let _ = format!("{}", r.args());
    }
    fn flush(&self) {}
}
static QUIET: Quiet = Quiet;

fn main() {
    let args: Vec<String> = std::env::args().collect();
    let _ = log::set_logger(&QUIET);
    log::set_max_level(log::LevelFilter::Trace);
    engine::panics::install_hook();
    if let Err(e) = refimpl::tags::crosscheck() {
        println!("INCONCLUSIVE reference tag table disagrees with the crate: {e}");
        std::process::exit(2);
    }
    let code = match engine::panics::catch(|| real_main(&args)) {
        Ok(c) => c,
        Err(p) => {
            println!("INCONCLUSIVE harness panic: {p}");
            2
        }
    };
    // remove this process's scratch directory (workers share the parent's)
    if !matches!(args.get(1).map(|s| s.as_str()), Some("worker") | Some("build-bytes")) {
        let _ = std::fs::remove_dir_all(engine::worker::scratch_dir());
    }
    std::process::exit(code);
}

fn real_main(args: &[String]) -> i32 {
    match args.get(1).map(|s| s.as_str()) {
        Some("run") => {
            let id = args.get(2).expect("property id");
            let tier = tier_of(args.get(3));
            dispatch!(id.as_str(), run_prop, tier)
        }
        Some("replay") => {
            let id = args.get(2).expect("property id");
            let path = std::path::PathBuf::from(args.get(3).expect("replay file"));
            dispatch!(id.as_str(), replay_prop, Tier::Quick, &path)
        }
        Some("build-bytes") => props::c11::build_bytes_main(),
        Some("worker") => {
            let id = args.get(2).expect("property id");
            let tier = tier_of(args.get(3));
            dispatch!(id.as_str(), serve_prop, tier)
        }
        _ => {
            eprintln!("usage: vcheck run <Cxx> [quick|thorough] | replay <Cxx> <file> | worker <Cxx> <tier>");
            2
        }
    }
}
