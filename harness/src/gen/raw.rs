//! G-raw-header / G-lead / raw packages: structurally parseable (and deliberately odd) headers
//! built from typed values, with gaps, misalignment, duplicates, unsorted and unknown tags,
//! then optionally perturbed index fields.

use crate::refimpl::fmt::*;
use crate::refimpl::tags;
use proptest::collection::vec;
use proptest::prelude::*;

pub fn nul_free_bytes(max: usize) -> impl Strategy<Value = Vec<u8>> {
    prop_oneof![
        4 => vec(prop_oneof![b'a'..=b'z', b'0'..=b'9', Just(b'.'), Just(b'-'), Just(b' ')], 0..max),
        1 => vec(1u8..=255, 0..max),
        1 => Just(vec![]),
        1 => Just("é漢🦀".as_bytes().to_vec()),
    ]
}

pub fn hexbytes(max: usize) -> impl Strategy<Value = HexBytes> {
    nul_free_bytes(max).prop_map(HexBytes)
}

/// any of the ten data types, small
pub fn val_any() -> impl Strategy<Value = Val> {
    prop_oneof![
        1 => Just(Val::Null),
        1 => vec(any::<u8>(), 0..6).prop_map(Val::Char),
        1 => vec(any::<u8>(), 0..6).prop_map(Val::Int8),
        2 => vec(any::<u16>(), 0..5).prop_map(Val::Int16),
        3 => vec(any::<u32>(), 0..5).prop_map(Val::Int32),
        2 => vec(any::<u64>(), 0..4).prop_map(Val::Int64),
        4 => nul_free_bytes(14).prop_map(Val::Str),
        2 => vec(any::<u8>(), 0..20).prop_map(Val::Bin),
        3 => vec(hexbytes(8), 0..5).prop_map(Val::StrArray),
        2 => vec(hexbytes(8), 0..4).prop_map(Val::I18n),
    ]
}

pub const MAIN_TAGS: &[u32] = &[
    tags::NAME, tags::VERSION, tags::RELEASE, tags::EPOCH, tags::SUMMARY, tags::DESCRIPTION,
    tags::BUILDTIME, tags::SIZE, tags::LICENSE, tags::GROUP, tags::ARCH, tags::FILESIZES,
    tags::FILEMODES, tags::FILEMTIMES, tags::FILEDIGESTS, tags::FILELINKTOS, tags::FILEFLAGS,
    tags::FILEUSERNAME, tags::FILEGROUPNAME, tags::PROVIDENAME, tags::REQUIRENAME,
    tags::REQUIREFLAGS, tags::REQUIREVERSION, tags::DIRINDEXES, tags::BASENAMES, tags::DIRNAMES,
    tags::PAYLOADCOMPRESSOR, tags::PAYLOADDIGEST, tags::PAYLOADDIGESTALGO, tags::LONGSIZE,
    tags::LONGFILESIZES, tags::FILECAPS, tags::FILEDIGESTALGO, tags::CHANGELOGNAME,
    tags::CHANGELOGTIME, tags::CHANGELOGTEXT, tags::PREIN, tags::PREINPROG, tags::PREINFLAGS,
    tags::SOURCEPACKAGE, tags::HEADERI18NTABLE,
];

pub const SIG_TAGS: &[u32] = &[
    tags::SIG_SIZE, tags::SIG_PGP, tags::SIG_MD5, tags::SIG_GPG, tags::SIG_DSA, tags::SIG_RSA,
    tags::SIG_SHA1, tags::SIG_SHA256, tags::SIG_OPENPGP, tags::SIG_FILESIGNATURES,
    tags::SIG_PAYLOADSIZE,
];

pub fn tag_any(sig: bool) -> impl Strategy<Value = u32> {
    let known: &'static [u32] = if sig { SIG_TAGS } else { MAIN_TAGS };
    prop_oneof![
        6 => proptest::sample::select(known),
        1 => prop_oneof![Just(62u32), Just(63u32), Just(61u32), Just(64u32)],
        2 => any::<u32>(),
        1 => 0u32..2000,
    ]
}

#[derive(Clone, Debug)]
pub struct EntrySpec {
    pub tag: u32,
    pub val: Val,
    /// random gap bytes inserted before the entry's data
    pub gap: Vec<u8>,
    pub aligned: bool,
}

#[derive(Clone, Debug)]
pub enum Perturb {
    /// move the offset to this fraction of the store length (may or may not stay parseable)
    OffsetFrac { entry: u16, frac: u16 },
    OffsetDelta { entry: u16, delta: i8 },
    CountDelta { entry: u16, delta: i8 },
    CountSet { entry: u16, count: u32 },
    TypeSet { entry: u16, typ: u32 },
    DupTag { entry: u16, from: u16 },
}

pub fn perturb(wild: bool) -> impl Strategy<Value = Perturb> {
    let count_vals = if wild {
        prop_oneof![Just(0u32), Just(1), Just(0x1000_0000), Just(u32::MAX), Just(0x7fff_ffff), 0u32..40].boxed()
    } else {
        (0u32..4).boxed()
    };
    let typ_vals = if wild { (0u32..12).boxed() } else { (0u32..10).boxed() };
    prop_oneof![
        (any::<u16>(), any::<u16>()).prop_map(|(entry, frac)| Perturb::OffsetFrac { entry, frac }),
        (any::<u16>(), -2i8..=2).prop_map(|(entry, delta)| Perturb::OffsetDelta { entry, delta }),
        (any::<u16>(), -1i8..=1).prop_map(|(entry, delta)| Perturb::CountDelta { entry, delta }),
        (any::<u16>(), count_vals).prop_map(|(entry, count)| Perturb::CountSet { entry, count }),
        (any::<u16>(), typ_vals).prop_map(|(entry, typ)| Perturb::TypeSet { entry, typ }),
        (any::<u16>(), any::<u16>()).prop_map(|(entry, from)| Perturb::DupTag { entry, from }),
    ]
}

fn pick(i: u16, n: usize) -> usize {
    (i as usize * n) >> 16
}

pub fn build_header(
    specs: &[EntrySpec],
    perturbs: &[Perturb],
    tail: &[u8],
    reserved: [u8; 4],
    magic3: u8,
    sort: bool,
) -> RawHeader {
    let mut specs: Vec<EntrySpec> = specs.to_vec();
    if sort {
        specs.sort_by_key(|s| s.tag);
    }
    let mut store = Vec::new();
    let mut entries = Vec::new();
    for s in &specs {
        store.extend_from_slice(&s.gap);
        if s.aligned {
            while store.len() % s.val.align() != 0 {
                store.push(0);
            }
        }
        entries.push(RawEntry {
            tag: s.tag,
            typ: s.val.typ(),
            offset: store.len() as i32,
            count: s.val.count(),
        });
        store.extend_from_slice(&s.val.data());
    }
    store.extend_from_slice(tail);
    let n = entries.len();
    if n > 0 {
        for p in perturbs {
            match *p {
                Perturb::OffsetFrac { entry, frac } => {
                    entries[pick(entry, n)].offset = ((frac as usize * (store.len() + 1)) >> 16) as i32
                }
                Perturb::OffsetDelta { entry, delta } => {
                    let e = &mut entries[pick(entry, n)];
                    e.offset = e.offset.wrapping_add(delta as i32)
                }
                Perturb::CountDelta { entry, delta } => {
                    let e = &mut entries[pick(entry, n)];
                    e.count = e.count.wrapping_add(delta as i32 as u32)
                }
                Perturb::CountSet { entry, count } => entries[pick(entry, n)].count = count,
                Perturb::TypeSet { entry, typ } => entries[pick(entry, n)].typ = typ,
                Perturb::DupTag { entry, from } => {
                    let t = entries[pick(from, n)].tag;
                    entries[pick(entry, n)].tag = t
                }
            }
        }
    }
    let mut h = RawHeader::new(entries, store);
    h.reserved = reserved;
    h.magic[2] = magic3;
    h
}

pub fn entry_spec(sig: bool) -> impl Strategy<Value = EntrySpec> {
    (
        tag_any(sig),
        val_any(),
        prop_oneof![3 => Just(vec![]), 1 => vec(any::<u8>(), 1..4)],
        prop::bool::weighted(0.85),
    )
        .prop_map(|(tag, val, gap, aligned)| EntrySpec {
            tag,
            val,
            gap,
            aligned,
        })
}

/// A raw header that is mostly parseable (`wild == false`: perturbations stay small) or hostile
/// (`wild == true`: boundary counts/types/offsets).
pub fn raw_header(sig: bool, wild: bool, max_entries: usize) -> impl Strategy<Value = RawHeader> {
    (
        vec(entry_spec(sig), 0..max_entries),
        prop_oneof![
            3 => Just(vec![]),
            2 => vec(perturb(wild), 1..3),
        ],
        vec(any::<u8>(), 0..9),
        prop_oneof![2 => Just([0u8; 4]), 1 => any::<[u8; 4]>()],
        prop_oneof![15 => Just(0xe8u8), 1 => any::<u8>()],
        prop::bool::weighted(0.5),
    )
        .prop_map(|(specs, perturbs, tail, reserved, magic3, sort)| {
            build_header(&specs, &perturbs, &tail, reserved, magic3, sort)
        })
}

pub fn lead_any() -> impl Strategy<Value = Vec<u8>> {
    prop_oneof![
        2 => Just(default_lead("pkg")),
        // every field of the lead set to a boundary value of its own (major/minor, type, arch,
        // os, signature type 0 = "none" / 1 / 5 / 0xffff, reserved bytes)
        2 => (proptest::sample::select(vec![0u16, 1, 2, 3, 4, 5, 0x00ff, 0xffff]), 0usize..7, any::<u8>()).prop_map(|(v, field, b)| {
            let mut l = default_lead("pkg");
            match field {
                0 => l[4] = v as u8,
                1 => l[5] = v as u8,
                2 => l[6..8].copy_from_slice(&v.to_be_bytes()),
                3 => l[8..10].copy_from_slice(&v.to_be_bytes()),
                4 => l[76..78].copy_from_slice(&v.to_be_bytes()),
                5 => l[78..80].copy_from_slice(&v.to_be_bytes()),
                _ => l[80 + (b as usize % 16)] = v as u8,
            }
            l
        }),
        3 => vec(any::<u8>(), 92).prop_map(|rest| {
            let mut l = LEAD_MAGIC.to_vec();
            l.extend_from_slice(&rest);
            l
        }),
    ]
}

pub fn payload_small() -> impl Strategy<Value = Vec<u8>> {
    prop_oneof![
        2 => Just(vec![]),
        2 => vec(any::<u8>(), 1..64),
        1 => Just(b"07070100000001000081a4".to_vec()),
    ]
}

/// a well-formed header whose region covers only its first records: 1..3 records follow the
/// region ("dribbles"), either with new tags or repeating a tag from inside the region
pub fn dribble_header(sig: bool) -> BoxedStrategy<RawHeader> {
    use crate::refimpl::fmt::{layout_with_dribbles, Val, TAG_HEADERIMMUTABLE, TAG_HEADERSIGNATURES};
    use crate::refimpl::tags;
    (1usize..4, any::<bool>(), "[a-z]{0,6}", any::<u32>())
        .prop_map(move |(n, dup, text, num)| {
            let mut entries: Vec<(u32, Val)> = if sig {
                vec![(tags::SIG_SHA1, Val::s("da39a3ee5e6b4b0d3255bfef95601890afd80709")), (tags::SIG_MD5, Val::Bin(vec![7; 16])), (tags::SIG_SIZE, Val::Int32(vec![num]))]
            } else {
                crate::gen::filepkg::basic_entries("dribble")
            };
            entries.sort_by_key(|e| e.0);
            let inside: Vec<u32> = entries.iter().map(|e| e.0).collect();
            for k in 0..n {
                let tag = if dup { inside[(num as usize + k) % inside.len()] } else { 5000 + k as u32 * 3 + (num % 3) };
                entries.push((tag, if k % 2 == 0 { Val::s(&text) } else { Val::Int32(vec![num, 1]) }));
            }
            layout_with_dribbles(&entries, Some(if sig { TAG_HEADERSIGNATURES } else { TAG_HEADERIMMUTABLE }), n)
        })
        .boxed()
}

pub fn raw_package(wild: bool) -> impl Strategy<Value = RawPackage> {
    (
        lead_any(),
        prop_oneof![8 => raw_header(true, wild, 6).boxed(), 1 => dribble_header(true)],
        prop::bool::weighted(0.3),
        // arbitrary padding, or padding that looks like the start of a header / a lead
        prop_oneof![
            4 => any::<[u8; 8]>(),
            1 => Just([0x8e, 0xad, 0xe8, 0x01, 0, 0, 0, 0]),
            1 => Just([0x8e, 0xad, 0xe8, 0x01, 0x8e, 0xad, 0xe8, 0x01]),
            1 => Just([0, 0x8e, 0xad, 0xe8, 0x01, 0, 0, 0]),
            1 => Just([0xed, 0xab, 0xee, 0xdb, 3, 0, 0, 0]),
        ],
        prop_oneof![8 => raw_header(false, wild, 14).boxed(), 1 => dribble_header(false)],
        payload_small(),
    )
        .prop_map(|(lead, sig, nonzero_pad, padbytes, hdr, payload)| {
            let n = sig_padding(sig.dl);
            let sig_pad = if nonzero_pad {
                padbytes[..n].to_vec()
            } else {
                vec![0; n]
            };
            RawPackage {
                lead,
                sig,
                sig_pad,
                hdr,
                payload,
            }
        })
}
