//! G-builder: serialisable builder configurations, proptest strategies for them, and the code
//! that materialises source files and drives `rpm::PackageBuilder`.

use crate::engine::{lcg_bytes, worker::scratch_dir};
use proptest::collection::vec;
use proptest::prelude::*;
use serde::{Deserialize, Serialize};
use std::sync::atomic::{AtomicU64, Ordering};

#[derive(Serialize, Deserialize, Clone, Debug, PartialEq)]
pub struct Comp {
    /// 0 = builder default, 1 none, 2 gzip, 3 zstd, 4 xz, 5 bzip2
    pub kind: u8,
    /// None = `CompressionType` (default level); Some = `CompressionWithLevel`
    pub level: Option<i32>,
}

impl Comp {
    pub fn name(&self) -> &'static str {
        match self.kind {
            0 => "default(zstd)",
            1 => "none",
            2 => "gzip",
            3 => "zstd",
            4 => "xz",
            _ => "bzip2",
        }
    }
    /// the PAYLOADCOMPRESSOR value a package built with this setting must carry (None = no tag)
    pub fn tag_value(&self) -> Option<&'static str> {
        match self.kind {
            0 | 3 => Some("zstd"),
            1 => None,
            2 => Some("gzip"),
            4 => Some("xz"),
            _ => Some("bzip2"),
        }
    }
}

#[derive(Serialize, Deserialize, Clone, Debug, PartialEq)]
pub struct DepSpec {
    /// 0 requires 1 provides 2 conflicts 3 obsoletes 4 recommends 5 suggests 6 enhances 7 supplements
    pub kind: u8,
    /// constructor: 0 any, 1 eq, 2 less, 3 less_eq, 4 greater, 5 greater_eq, 6 rpmlib, 7 config,
    /// 8 user, 9 group, 10 script_pre, 11 script_post, 12 script_preun, 13 script_postun
    pub ctor: u8,
    pub name: String,
    pub version: String,
}

impl DepSpec {
    pub fn make(&self) -> rpm::Dependency {
        use rpm::Dependency as D;
        let n = self.name.clone();
        let v = self.version.clone();
        match self.ctor {
            0 => D::any(n),
            1 => D::eq(n, v),
            2 => D::less(n, v),
            3 => D::less_eq(n, v),
            4 => D::greater(n, v),
            5 => D::greater_eq(n, v),
            6 => D::rpmlib(n, v),
            7 => D::config(&n, v),
            8 => D::user(&n),
            9 => D::group(&n),
            10 => D::script_pre(n),
            11 => D::script_post(n),
            12 => D::script_preun(n),
            _ => D::script_postun(n),
        }
    }
}

#[derive(Serialize, Deserialize, Clone, Debug, PartialEq)]
pub struct ScriptSpec {
    /// 0 pre_install 1 post_install 2 pre_uninstall 3 post_uninstall 4 pre_trans 5 post_trans
    /// 6 pre_untrans 7 post_untrans 8 verify
    pub kind: u8,
    pub body: String,
    pub flags: Option<u32>,
    pub prog: Option<Vec<String>>,
}

pub const SCRIPT_KIND_NAMES: [&str; 9] = [
    "pre_install", "post_install", "pre_uninstall", "post_uninstall", "pre_trans", "post_trans",
    "pre_untrans", "post_untrans", "verify",
];

#[derive(Serialize, Deserialize, Clone, Debug, PartialEq)]
pub struct ContentSpec {
    pub size: u32,
    /// 0 zeros, 1 text, 2 incompressible
    pub kind: u8,
    pub seed: u64,
}

/// kernel pseudo files whose stat() size (0) is not the number of bytes a read returns and whose
/// content does not change while the process runs; used as SOURCE paths (content kind 7)
pub const PSEUDO_SOURCES: [&str; 3] = ["/proc/version", "/proc/filesystems", "/proc/sys/kernel/ostype"];

impl ContentSpec {
    /// for kind 7: the pseudo file to use as source, if it is readable and non-empty here
    pub fn pseudo_source(&self) -> Option<(&'static str, Vec<u8>)> {
        if self.kind != 7 {
            return None;
        }
        let p = PSEUDO_SOURCES[(self.seed % PSEUDO_SOURCES.len() as u64) as usize];
        match (std::fs::read(p), std::fs::metadata(p)) {
            (Ok(c), Ok(m)) if !c.is_empty() && m.len() != c.len() as u64 => Some((p, c)),
            _ => None,
        }
    }
    pub fn bytes(&self) -> Vec<u8> {
        if let Some((_, c)) = self.pseudo_source() {
            return c;
        }
        let n = self.size as usize;
        match self.kind {
            0 => vec![0u8; n],
            1 => {
                let mut v = Vec::with_capacity(n + 64);
                let mut i = self.seed % 97;
                while v.len() < n {
                    v.extend_from_slice(format!("line {} of some generated text file\n", i).as_bytes());
                    i += 1;
                }
                v.truncate(n);
                v
            }
            _ => lcg_bytes(self.seed, n),
        }
    }
}

#[derive(Serialize, Deserialize, Clone, Debug, PartialEq)]
pub enum ModeSpec {
    /// mode inherited from the source file, which is chmod-ed to these permission bits
    Inherit(u16),
    Regular(u16),
    Dir(u16),
    Symlink(u16),
}

#[derive(Serialize, Deserialize, Clone, Debug, PartialEq)]
pub struct FileSpec {
    /// true: "./a/b" style destination, false: "/a/b"
    pub dot_style: bool,
    pub components: Vec<String>,
    pub content: ContentSpec,
    pub mode: ModeSpec,
    pub user: Option<String>,
    pub group: Option<String>,
    /// bit 0 doc, 1 config, 2 config_noreplace, 3 ghost, 4 license, 5 readme
    pub flags: u8,
    pub caps: Option<String>,
    pub symlink: Option<String>,
    /// mtime given to the source file (seconds since the epoch)
    pub mtime: u32,
    pub verify: Option<u32>,
    /// pass an explicit mode as a raw integer (`.mode(0o100644)`) instead of through the
    /// FileMode constructors: 1 = i32, 2 = u16
    #[serde(default)]
    pub mode_as_int: u8,
}

impl FileSpec {
    pub fn dest(&self) -> String {
        let p = self.components.join("/");
        if self.dot_style {
            format!("./{}", p)
        } else {
            format!("/{}", p)
        }
    }
    /// the absolute path the file must be reported at
    pub fn abs_path(&self) -> String {
        format!("/{}", self.components.join("/"))
    }
    /// the name rpm (and the builder) give the file inside the cpio archive
    pub fn cpio_name(&self) -> String {
        format!("./{}", self.components.join("/"))
    }
    pub fn expected_flag_bits(&self) -> u32 {
        // written out from rpm's rpmfileAttrs: CONFIG 1, DOC 2, NOREPLACE 16, GHOST 64, LICENSE 128, README 256
        let mut b = 0u32;
        if self.flags & 1 != 0 {
            b |= 2;
        }
        if self.flags & 2 != 0 {
            b |= 1;
        }
        if self.flags & 4 != 0 {
            b |= 1 | 16;
        }
        if self.flags & 8 != 0 {
            b |= 64;
        }
        if self.flags & 16 != 0 {
            b |= 128;
        }
        if self.flags & 32 != 0 {
            b |= 256;
        }
        b
    }
    pub fn expected_mode(&self) -> u16 {
        match self.mode {
            ModeSpec::Inherit(p) => 0o100000 | (p & 0o7777),
            ModeSpec::Regular(p) => 0o100000 | (p & 0o7777),
            ModeSpec::Dir(p) => 0o040000 | (p & 0o7777),
            ModeSpec::Symlink(p) => 0o120000 | (p & 0o7777),
        }
    }
}

#[derive(Serialize, Deserialize, Clone, Debug, PartialEq)]
pub struct BuilderConfig {
    pub name: String,
    pub version: String,
    pub license: String,
    pub arch: String,
    pub summary: String,
    pub epoch: Option<u32>,
    pub release: Option<String>,
    pub description: Option<String>,
    pub vendor: Option<String>,
    pub packager: Option<String>,
    pub group: Option<String>,
    pub url: Option<String>,
    pub vcs: Option<String>,
    pub cookie: Option<String>,
    pub build_host: Option<String>,
    pub source_date: Option<u32>,
    pub compression: Comp,
    pub deps: Vec<DepSpec>,
    pub changelog: Vec<(String, String, u32)>,
    pub scriptlets: Vec<ScriptSpec>,
    pub files: Vec<FileSpec>,
    /// index into the key set, None = unsigned
    pub signer: Option<u8>,
    pub force_large: bool,
    /// stage every file at the SAME source path (rewritten between with_file calls, equal
    /// mtimes): each entry must still carry the digest/content it had when it was added
    #[serde(default)]
    pub reuse_source: bool,
    /// hand the source date to the builder as a chrono DateTime in this fixed offset (seconds
    /// east of UTC) instead of as plain seconds; the instant is the same
    #[serde(default)]
    pub source_date_zone: Option<i32>,
    /// call the metadata setters (source date, compression, ...) AFTER the files were added;
    /// the order of builder calls must not matter
    #[serde(default)]
    pub setters_last: bool,
    /// when set, the source date is "this many seconds ago" at the moment the case runs (a commit
    /// made seconds before the build) instead of the fixed `source_date`
    #[serde(default)]
    pub source_date_secs_ago: Option<u32>,
    /// sign through a caller-written `Signing` implementation that reads only the first bytes of
    /// the data it is handed and returns a signature prepared elsewhere (a detached signer)
    #[serde(default)]
    pub lazy_signer: bool,
}

/// a `Signing` implementation of the caller's own: it does not drain `data`
#[derive(Debug)]
pub struct LazySigner {
    pub blob: Vec<u8>,
}

impl rpm::signature::Signing for LazySigner {
    type Signature = Vec<u8>;
    fn sign(&self, mut data: impl std::io::Read, _t: rpm::Timestamp) -> Result<Vec<u8>, rpm::Error> {
        let mut first = [0u8; 7];
        let _ = data.read(&mut first);
        Ok(self.blob.clone())
    }
    fn algorithm(&self) -> rpm::signature::AlgorithmType {
        rpm::signature::AlgorithmType::EdDSA
    }
}

pub fn lazy_signer() -> LazySigner {
    static BLOB: std::sync::OnceLock<Vec<u8>> = std::sync::OnceLock::new();
    let blob = BLOB.get_or_init(|| {
        use rpm::signature::Signing;
        super::keys::keys().signers[2].sign(&b"signed somewhere else"[..], rpm::Timestamp(1_600_000_000)).expect("prepare a signature")
    });
    LazySigner { blob: blob.clone() }
}

impl BuilderConfig {
    pub fn minimal(name: &str) -> Self {
        BuilderConfig {
            name: name.to_string(),
            version: "1.0".into(),
            license: "MIT".into(),
            arch: "noarch".into(),
            summary: "s".into(),
            epoch: None,
            release: None,
            description: None,
            vendor: None,
            packager: None,
            group: None,
            url: None,
            vcs: None,
            cookie: None,
            build_host: None,
            source_date: None,
            compression: Comp { kind: 1, level: None },
            deps: vec![],
            changelog: vec![],
            scriptlets: vec![],
            files: vec![],
            signer: None,
            force_large: false,
            reuse_source: false,
            source_date_zone: None,
            setters_last: false,
            source_date_secs_ago: None,
            lazy_signer: false,
        }
    }

    /// number of optional builder inputs that were supplied (non-triviality measure)
    pub fn optional_count(&self) -> usize {
        [
            self.epoch.is_some(),
            self.release.is_some(),
            self.description.is_some(),
            self.vendor.is_some(),
            self.packager.is_some(),
            self.group.is_some(),
            self.url.is_some(),
            self.vcs.is_some(),
            self.cookie.is_some(),
            self.build_host.is_some(),
            self.source_date.is_some(),
        ]
        .iter()
        .filter(|b| **b)
        .count()
            + self.deps.len()
            + self.changelog.len()
            + self.scriptlets.len()
    }
}

pub struct Built {
    pub result: Result<rpm::Package, rpm::Error>,
    /// files in the order the builder must emit them (sorted by cpio name), with their content
    pub files: Vec<(FileSpec, Vec<u8>)>,
}

static DIR_SEQ: AtomicU64 = AtomicU64::new(0);

pub struct TempDir(pub std::path::PathBuf);
impl TempDir {
    pub fn new(prefix: &str) -> TempDir {
        let n = DIR_SEQ.fetch_add(1, Ordering::Relaxed);
        let p = scratch_dir().join(format!("{}-{}-{}", prefix, std::process::id(), n));
        let _ = std::fs::remove_dir_all(&p);
        std::fs::create_dir_all(&p).expect("create temp dir");
        TempDir(p)
    }
}
impl Drop for TempDir {
    fn drop(&mut self) {
        let _ = std::fs::remove_dir_all(&self.0);
    }
}

pub fn make_compression(c: &Comp) -> Option<rpm::CompressionWithLevel> {
    use rpm::CompressionType as T;
    use rpm::CompressionWithLevel as L;
    Some(match (c.kind, c.level) {
        (0, _) => return None,
        (1, _) => L::None,
        (2, None) => T::Gzip.into(),
        (3, None) => T::Zstd.into(),
        (4, None) => T::Xz.into(),
        (5, None) => T::Bzip2.into(),
        (2, Some(l)) => L::Gzip(l as u32),
        (3, Some(l)) => L::Zstd(l),
        (4, Some(l)) => L::Xz(l as u32),
        (_, Some(l)) => L::Bzip2(l as u32),
        _ => L::None,
    })
}

/// Write one source file for `f` into `dir` and return the options to add it with.
pub fn stage_file(
    dir: &std::path::Path,
    idx: usize,
    f: &FileSpec,
    content: &[u8],
) -> Result<(std::path::PathBuf, rpm::FileOptions), rpm::Error> {
    use std::os::unix::fs::PermissionsExt;
    let mut src = dir.join(format!("src{}", idx));
    let pseudo = f.content.pseudo_source().map(|(p, _)| p);
    if let Some(p) = pseudo {
        // the source is a kernel pseudo file: its mode and times are what they are
        src = std::path::PathBuf::from(p);
    } else {
        std::fs::write(&src, content)?;
    }
    let _ = pseudo;
    if pseudo.is_none() {
        if let ModeSpec::Inherit(p) = f.mode {
            std::fs::set_permissions(&src, std::fs::Permissions::from_mode((p & 0o7777) as u32))?;
        }
        let fh = std::fs::OpenOptions::new().write(true).open(&src).or_else(|_| {
            // unreadable/unwritable permission bits: we are root in the sandbox, open still works;
            // fall back to read-only open for setting times
            std::fs::File::open(&src)
        })?;
        fh.set_modified(std::time::UNIX_EPOCH + std::time::Duration::from_secs(f.mtime as u64))?;
        drop(fh);
    }
    let mut o = rpm::FileOptions::new(f.dest());
    match (f.mode.clone(), f.mode_as_int) {
        (ModeSpec::Inherit(_), _) => {}
        (_, 1) => o = o.mode(f.expected_mode() as i32),
        (_, 2) => o = o.mode(f.expected_mode()),
        (ModeSpec::Regular(p), _) => o = o.mode(rpm::FileMode::regular(p)),
        (ModeSpec::Dir(p), _) => o = o.mode(rpm::FileMode::dir(p)),
        (ModeSpec::Symlink(p), _) => o = o.mode(rpm::FileMode::symbolic_link(p)),
    }
    if let Some(u) = &f.user {
        o = o.user(u.clone());
    }
    if let Some(g) = &f.group {
        o = o.group(g.clone());
    }
    if f.flags & 1 != 0 {
        o = o.is_doc();
    }
    if f.flags & 2 != 0 {
        o = o.is_config();
    }
    if f.flags & 4 != 0 {
        o = o.is_config_noreplace();
    }
    if f.flags & 8 != 0 {
        o = o.is_ghost();
    }
    if f.flags & 16 != 0 {
        o = o.is_license();
    }
    if f.flags & 32 != 0 {
        o = o.is_readme();
    }
    if let Some(c) = effective_caps(f) {
        o = o.caps(c)?;
    }
    if let Some(t) = &f.symlink {
        o = o.symlink(t.clone());
    }
    if let Some(v) = f.verify {
        o = o.verify(rpm::FileVerifyFlags::from_bits_retain(v));
    }
    Ok((src, o.into()))
}

/// Drive the real builder with `cfg`. Library panics propagate to the caller's `catch`.
pub fn build(cfg: &BuilderConfig) -> Built {
    let dir = TempDir::new("bld");
    let mut files: Vec<(FileSpec, Vec<u8>)> = cfg
        .files
        .iter()
        .map(|f| (f.clone(), f.content.bytes()))
        .collect();
    let result = build_in(cfg, &dir.0, &files);
    files.sort_by(|a, b| a.0.cpio_name().as_bytes().cmp(b.0.cpio_name().as_bytes()));
    Built { result, files }
}

fn build_in(
    cfg: &BuilderConfig,
    dir: &std::path::Path,
    files: &[(FileSpec, Vec<u8>)],
) -> Result<rpm::Package, rpm::Error> {
    let mut b = rpm::PackageBuilder::new(&cfg.name, &cfg.version, &cfg.license, &cfg.arch, &cfg.summary);
    if cfg.setters_last {
        for (i, (f, content)) in files.iter().enumerate() {
            let (src, opts) = stage_file(dir, if cfg.reuse_source { 0 } else { i }, f, content)?;
            b = b.with_file(&src, opts)?;
        }
    }
    if let Some(e) = cfg.epoch {
        b = b.epoch(e);
    }
    if let Some(r) = &cfg.release {
        b = b.release(r.clone());
    }
    if let Some(x) = &cfg.description {
        b = b.description(x.clone());
    }
    if let Some(x) = &cfg.vendor {
        b = b.vendor(x.clone());
    }
    if let Some(x) = &cfg.packager {
        b = b.packager(x.clone());
    }
    if let Some(x) = &cfg.group {
        b = b.group(x.clone());
    }
    if let Some(x) = &cfg.url {
        b = b.url(x.clone());
    }
    if let Some(x) = &cfg.vcs {
        b = b.vcs(x.clone());
    }
    if let Some(x) = &cfg.cookie {
        b = b.cookie(x);
    }
    if let Some(x) = &cfg.build_host {
        b = b.build_host(x);
    }
    if let Some(t) = cfg.source_date {
        b = match cfg.source_date_zone.and_then(chrono::FixedOffset::east_opt) {
            Some(tz) => {
                use chrono::TimeZone;
                b.source_date(tz.timestamp_opt(t as i64, 0).single().expect("valid instant"))
            }
            None => b.source_date(t),
        };
    }
    if let Some(c) = make_compression(&cfg.compression) {
        b = b.compression(c);
    }
    for d in &cfg.deps {
        let dep = d.make();
        b = match d.kind {
            0 => b.requires(dep),
            1 => b.provides(dep),
            2 => b.conflicts(dep),
            3 => b.obsoletes(dep),
            4 => b.recommends(dep),
            5 => b.suggests(dep),
            6 => b.enhances(dep),
            _ => b.supplements(dep),
        };
    }
    for (n, t, ts) in &cfg.changelog {
        // with a zoned source date the changelog times are zoned chrono values as well
        b = match cfg.source_date_zone.and_then(chrono::FixedOffset::east_opt) {
            Some(tz) => {
                use chrono::TimeZone;
                b.add_changelog_entry(n, t, tz.timestamp_opt(*ts as i64, 0).single().expect("valid instant"))
            }
            None => b.add_changelog_entry(n, t, *ts),
        };
    }
    for s in &cfg.scriptlets {
        let mut sc = rpm::Scriptlet::new(s.body.clone());
        if let Some(f) = s.flags {
            sc = sc.flags(rpm::ScriptletFlags::from_bits_retain(f));
        }
        if let Some(p) = &s.prog {
            sc = sc.prog(p.clone());
        }
        b = match s.kind {
            0 => b.pre_install_script(sc),
            1 => b.post_install_script(sc),
            2 => b.pre_uninstall_script(sc),
            3 => b.post_uninstall_script(sc),
            4 => b.pre_trans_script(sc),
            5 => b.post_trans_script(sc),
            6 => b.pre_untrans_script(sc),
            7 => b.post_untrans_script(sc),
            _ => b.verify_script(sc),
        };
    }
    if !cfg.setters_last {
        for (i, (f, content)) in files.iter().enumerate() {
            let (src, opts) = stage_file(dir, if cfg.reuse_source { 0 } else { i }, f, content)?;
            b = b.with_file(&src, opts)?;
        }
    }
    rpm::verif_hooks::set_force_large_files(cfg.force_large);
    let r = match cfg.signer {
        _ if cfg.lazy_signer => b.build_and_sign(lazy_signer()),
        None => b.build(),
        Some(k) => {
            let ks = super::keys::keys();
            let signer = ks.signers[k as usize % ks.signers.len()].clone();
            b.build_and_sign(signer)
        }
    };
    rpm::verif_hooks::set_force_large_files(false);
    r
}

// ---------------------------------------------------------------------------------------------
// strategies

/// G-str: NUL-free UTF-8 with weighted classes
pub fn gstr() -> BoxedStrategy<String> {
    prop_oneof![
        1 => Just(String::new()),
        6 => "[a-zA-Z0-9_.+-]{1,12}",
        2 => "[a-z ]{0,10}\n[a-z -]{0,10}(\n)?",
        2 => vec(proptest::sample::select(vec!['é', '漢', '🦀', 'a', '\u{301}', ' ', 'ß']), 1..8)
            .prop_map(|v| v.into_iter().collect::<String>()),
        1 => (1usize..4096, proptest::sample::select(vec!['x', 'é', '7'])).prop_map(|(n, c)| std::iter::repeat(c).take(n).collect()),
        1 => "[$`\"'\\\\;&|<>(){}*?! %]{1,8}",
    ]
    .boxed()
}

/// plain word (used where the value becomes part of another syntax: names, arch, ...)
pub fn word() -> BoxedStrategy<String> {
    "[a-zA-Z][a-zA-Z0-9_+-]{0,10}".boxed()
}

pub fn comp_any(levels: bool) -> BoxedStrategy<Comp> {
    if !levels {
        return (0u8..6).prop_map(|kind| Comp { kind, level: None }).boxed();
    }
    prop_oneof![
        2 => (0u8..6).prop_map(|kind| Comp { kind, level: None }),
        1 => (0i32..=9).prop_map(|l| Comp { kind: 2, level: Some(l) }),
        1 => (1i32..=22).prop_map(|l| Comp { kind: 3, level: Some(l) }),
        1 => (0i32..=9).prop_map(|l| Comp { kind: 4, level: Some(l) }),
        1 => (1i32..=9).prop_map(|l| Comp { kind: 5, level: Some(l) }),
    ]
    .boxed()
}

/// mostly cheap settings, sometimes the (expensive) default levels: xz 9 alone maps ~700 MB
pub fn comp_mixed() -> BoxedStrategy<Comp> {
    prop_oneof![12 => comp_fast(), 1 => comp_any(false)].boxed()
}

/// cheap compression settings only (keeps MiB-sized cases fast)
pub fn comp_fast() -> BoxedStrategy<Comp> {
    prop_oneof![
        Just(Comp { kind: 1, level: None }),
        (0i32..=6).prop_map(|l| Comp { kind: 2, level: Some(l) }),
        (1i32..=6).prop_map(|l| Comp { kind: 3, level: Some(l) }),
        (0i32..=3).prop_map(|l| Comp { kind: 4, level: Some(l) }),
        (1i32..=9).prop_map(|l| Comp { kind: 5, level: Some(l) }),
        Just(Comp { kind: 2, level: None }),
    ]
    .boxed()
}

pub fn dep_any() -> BoxedStrategy<DepSpec> {
    (0u8..8, 0u8..14, "[a-zA-Z/][a-zA-Z0-9_./()+-]{0,14}", "[0-9][0-9a-z.~^:-]{0,8}")
        .prop_map(|(kind, ctor, name, version)| DepSpec {
            kind,
            ctor,
            name,
            version,
        })
        .boxed()
}

pub fn script_any() -> BoxedStrategy<ScriptSpec> {
    (
        0u8..9,
        gstr(),
        proptest::option::of(0u32..8),
        proptest::option::of(vec("[a-z/-]{1,10}", 1..3)),
    )
        .prop_map(|(kind, body, flags, prog)| ScriptSpec {
            kind,
            body,
            flags,
            prog,
        })
        .boxed()
}

pub fn size_small() -> BoxedStrategy<u32> {
    prop_oneof![
        4 => proptest::sample::select(vec![0u32, 1, 2, 3, 4, 5, 7, 8]),
        3 => 0u32..300,
        1 => 4095u32..=4097,
    ]
    .boxed()
}

pub fn size_mixed() -> BoxedStrategy<u32> {
    prop_oneof![
        30 => size_small(),
        3 => proptest::sample::select(vec![32767u32, 32768, 32769, 65535, 65536, 65537]),
        2 => Just(131072u32),
        1 => Just(1u32 << 20),
    ]
    .boxed()
}

pub fn content_any(size: BoxedStrategy<u32>) -> BoxedStrategy<ContentSpec> {
    (size, 0u8..3, any::<u64>())
        .prop_map(|(size, kind, seed)| ContentSpec { size, kind, seed })
        .boxed()
}

pub fn component() -> BoxedStrategy<String> {
    prop_oneof![
        6 => "[a-z]{1,6}",
        2 => "[a-z]{1,3}[-.][a-z]{1,3}",
        1 => "[a-z]{1,2}[é漢]",
        1 => "\\.[a-z]{1,4}",
        1 => "[a-z]{1,3} [a-z]{1,3}",
        // names that end in dots or consist of dots only (but are neither "." nor "..")
        1 => proptest::sample::select(vec!["a.", "v1.", "x..", "...", "a.b.", ".a.", "...."]).prop_map(|s| s.to_string()),
        1 => proptest::sample::select(vec!["a", "a-b", "a.b", "a b", "ab", "A", "usr", "etc", "bin", "TRAILER!!!"]).prop_map(|s| s.to_string()),
    ]
    .boxed()
}

pub const CAPS_VALID: &[&str] = &[
    "cap_chown=p", "cap_chown+ie", "=e", "all=e", "cap_sys_admin,cap_sys_ptrace=pe",
    "cap_net_raw+ep cap_chown-i", "=e cap_chown-e", "CAP_NET_BIND_SERVICE=ep",
    // outer / repeated whitespace: whether such text is accepted is left open (see
    // `effective_caps`), but when it is accepted it has to be kept as given
    " =e cap_chown-e", "cap_net_raw=ep\n", "cap_chown=p  ", "cap_chown=p \t cap_kill+i",
];

/// The capability text that is expected to end up in the package for this file: the supplied
/// text, except that a text with leading/trailing whitespace which the library chooses to
/// reject (its acceptance is not specified) is treated as "no capabilities supplied".
pub fn effective_caps(f: &FileSpec) -> Option<String> {
    let c = f.caps.as_ref()?;
    let outer_ws = c.starts_with(char::is_whitespace) || c.ends_with(char::is_whitespace);
    if outer_ws && crate::engine::panics::catch(|| rpm::FileOptions::new("/probe").caps(c.clone()).is_err()).unwrap_or(false) {
        return None;
    }
    Some(c.clone())
}

pub fn owner() -> BoxedStrategy<Option<String>> {
    prop_oneof![
        3 => Just(None),
        1 => Just(Some("root".to_string())),
        4 => proptest::sample::select(vec!["alice", "bob", "carol", "dave", "eve", "www-data"]).prop_map(|s| Some(s.to_string())),
    ]
    .boxed()
}

pub fn mode_any() -> BoxedStrategy<ModeSpec> {
    prop_oneof![
        3 => (0u16..0o10000).prop_map(ModeSpec::Inherit),
        3 => (0u16..0o10000).prop_map(ModeSpec::Regular),
        1 => proptest::sample::select(vec![0o644u16, 0o755, 0o600, 0o4755, 0o1777, 0]).prop_map(ModeSpec::Regular),
    ]
    .boxed()
}

pub fn file_any(size: BoxedStrategy<u32>, kinds: bool) -> BoxedStrategy<FileSpec> {
    (
        (any::<bool>(), vec(component(), 1..5)),
        content_any(size),
        mode_any(),
        (owner(), owner()),
        prop_oneof![3 => Just(0u8), 2 => 0u8..64],
        proptest::option::weighted(0.2, proptest::sample::select(CAPS_VALID).prop_map(|s| s.to_string())),
        (prop_oneof![8 => 0u32..2_000_000_000, 1 => 2_000_000_000u32..=u32::MAX, 1 => proptest::sample::select(vec![0u32, 1, (1 << 31) - 1, 1 << 31, (1 << 31) + 1, u32::MAX - 1, u32::MAX])], proptest::option::weighted(0.2, any::<u32>())),
        // kind selector: 0..8 regular, 8 dir, 9 symlink
        (0u8..10, 0u16..0o10000, "[a-z/.]{1,12}"),
    )
        .prop_map(move |((dot_style, components), content, mode, (user, group), flags, caps, (mtime, verify), (k, perm, target))| {
            let mut f = FileSpec {
                dot_style,
                components,
                content,
                mode,
                user,
                group,
                flags,
                caps,
                symlink: None,
                mtime,
                verify,
                mode_as_int: (perm % 3) as u8,
            };
            if kinds && k == 8 {
                f.mode = ModeSpec::Dir(perm);
                f.content.size = 0;
            } else if kinds && k == 9 {
                f.mode = ModeSpec::Symlink(perm);
                f.content.size = 0;
                f.symlink = Some(target);
            }
            f
        })
        .boxed()
}

/// drop files whose destination duplicates an earlier one
pub fn dedupe_files(files: Vec<FileSpec>) -> Vec<FileSpec> {
    let mut seen = std::collections::BTreeSet::new();
    files
        .into_iter()
        .filter(|f| seen.insert(f.abs_path()))
        .collect()
}

pub struct CfgParams {
    pub max_files: usize,
    pub sizes: BoxedStrategy<u32>,
    pub comp: BoxedStrategy<Comp>,
    pub sign_prob: f64,
    pub file_kinds: bool,
    pub force_large_prob: f64,
    pub rich_meta: bool,
}

/// like `config_any`, but a quarter of the cases stage all files at one source path that is
/// rewritten between the calls, with equal mtimes and few distinct sizes
pub fn config_any_reuse(p: CfgParams) -> BoxedStrategy<BuilderConfig> {
    (config_any(p), 0u8..4, 0u32..2_000_000_000, any::<bool>())
        .prop_map(|(mut c, r, mtime, setters_last)| {
            c.setters_last = setters_last;
            if mtime % 5 == 0 {
                c.source_date_zone = Some([7200, -28800, 19800, 45900][(mtime / 5 % 4) as usize]);
            }
            if r == 0 && c.files.len() >= 2 {
                c.reuse_source = true;
                let base = c.files[0].content.size;
                for (i, f) in c.files.iter_mut().enumerate() {
                    f.mtime = mtime;
                    if i % 3 != 2 {
                        f.content.size = base;
                    }
                    if f.content.kind == 0 {
                        f.content.kind = 1 + (i as u8 % 2);
                    }
                    f.content.seed = f.content.seed.wrapping_add(i as u64);
                }
            }
            c
        })
        .boxed()
}

pub fn config_any(p: CfgParams) -> BoxedStrategy<BuilderConfig> {
    let opt_s = || proptest::option::of(gstr());
    let meta = if p.rich_meta {
        (
            (prop_oneof![10 => word(), 1 => proptest::sample::select(vec![64usize, 65, 66, 67, 130]).prop_map(|n| "n".repeat(n))], "[0-9][0-9a-z.~^+]{0,8}", gstr(), word(), gstr()),
            (proptest::option::of(any::<u32>()), proptest::option::of("[0-9a-z][0-9a-z._]{0,8}"), opt_s(), opt_s(), opt_s()),
            (opt_s(), opt_s(), opt_s(), opt_s(), opt_s()),
            vec(dep_any(), 0..6),
            vec((gstr(), gstr(), any::<u32>()), 0..4),
            vec(script_any(), 0..5),
        )
            .boxed()
    } else {
        (
            (word(), Just("1.0".to_string()), Just("MIT".to_string()), Just("noarch".to_string()), Just("s".to_string())),
            (Just(None), Just(None), Just(None), Just(None), Just(None)),
            (Just(None), Just(None), Just(None), Just(None), Just(None)),
            Just(vec![]),
            Just(vec![]),
            Just(vec![]),
        )
            .boxed()
    };
    (
        meta,
        proptest::option::of(1u32..2_000_000_000),
        p.comp,
        vec(file_any(p.sizes, p.file_kinds), 0..=p.max_files),
        if p.sign_prob > 0.0 { proptest::option::weighted(p.sign_prob, 0u8..4).boxed() } else { Just(None).boxed() },
        if p.force_large_prob > 0.0 { prop::bool::weighted(p.force_large_prob).boxed() } else { Just(false).boxed() },
    )
        .prop_map(
            |(
                ((name, version, license, arch, summary), (epoch, release, description, vendor, packager), (group, url, vcs, cookie, build_host), deps, changelog, scriptlets),
                source_date,
                compression,
                files,
                signer,
                force_large,
            )| {
                // at most one scriptlet per kind (a later call replaces an earlier one)
                let mut seen = [false; 9];
                let scriptlets: Vec<ScriptSpec> = scriptlets
                    .into_iter()
                    .filter(|s| !std::mem::replace(&mut seen[s.kind as usize], true))
                    .collect();
                // version ranges: neighbouring dependencies of the same kind on the same name
                let mut deps = deps;
                for i in 1..deps.len() {
                    if (deps[i].ctor + deps[i - 1].ctor) % 3 == 0 {
                        deps[i].kind = deps[i - 1].kind;
                        deps[i].name = deps[i - 1].name.clone();
                    }
                }
                BuilderConfig {
                    name,
                    version,
                    license,
                    arch,
                    summary,
                    epoch,
                    release,
                    description,
                    vendor,
                    packager,
                    group,
                    url,
                    vcs,
                    cookie,
                    build_host,
                    source_date,
                    compression,
                    deps,
                    changelog,
                    scriptlets,
                    files: dedupe_files(files),
                    signer,
                    force_large,
                    reuse_source: false,
                    source_date_zone: None,
                    setters_last: false,
                    source_date_secs_ago: None,
                    lazy_signer: false,
                }
            },
        )
        .boxed()
}
