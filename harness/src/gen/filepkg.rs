//! Hand-encoded packages that carry file tables: a typed model of per-file metadata, the header
//! entries it maps to, and a wrapper that produces a complete package around a payload.

use crate::refimpl::cpio::CpioSpec;
use crate::refimpl::digests;
use crate::refimpl::fmt::{self, HexBytes, RawPackage, Val};
use crate::refimpl::tags;
use proptest::collection::vec;
use proptest::prelude::*;
use serde::{Deserialize, Serialize};

#[derive(Serialize, Deserialize, Clone, Debug, PartialEq)]
pub struct ModelFile {
    /// directory name as stored in DIRNAMES (normally starts and ends with '/')
    pub dir: String,
    pub base: String,
    pub mode: u16,
    pub mtime: u32,
    pub flags: u32,
    pub user: String,
    pub group: String,
    pub linkto: String,
    #[serde(with = "crate::engine::hexser")]
    pub content: Vec<u8>,
}

impl ModelFile {
    pub fn path(&self) -> String {
        format!("{}{}", self.dir, self.base)
    }
    pub fn cpio_name(&self) -> String {
        format!(".{}{}", self.dir, self.base)
    }
    pub fn is_ghost(&self) -> bool {
        self.flags & 64 != 0
    }
}

fn sa(items: Vec<String>) -> Val {
    Val::StrArray(items.into_iter().map(|s| HexBytes(s.into_bytes())).collect())
}

/// header entries (unsorted) describing `files`, in the given order
pub fn file_entries(files: &[ModelFile], long_sizes: bool) -> Vec<(u32, Val)> {
    if files.is_empty() {
        return vec![];
    }
    let mut dirs: Vec<String> = vec![];
    let mut dirindexes = vec![];
    for f in files {
        let i = match dirs.iter().position(|d| *d == f.dir) {
            Some(i) => i,
            None => {
                dirs.push(f.dir.clone());
                dirs.len() - 1
            }
        };
        dirindexes.push(i as u32);
    }
    let mut v = vec![
        (tags::FILEMODES, Val::Int16(files.iter().map(|f| f.mode).collect())),
        (tags::FILEMTIMES, Val::Int32(files.iter().map(|f| f.mtime).collect())),
        (
            tags::FILEDIGESTS,
            sa(files
                .iter()
                .map(|f| {
                    if f.mode & 0o170000 == 0o100000 {
                        digests::sha256_hex(&[&f.content])
                    } else {
                        String::new()
                    }
                })
                .collect()),
        ),
        (tags::FILELINKTOS, sa(files.iter().map(|f| f.linkto.clone()).collect())),
        (tags::FILEFLAGS, Val::Int32(files.iter().map(|f| f.flags).collect())),
        (tags::FILEUSERNAME, sa(files.iter().map(|f| f.user.clone()).collect())),
        (tags::FILEGROUPNAME, sa(files.iter().map(|f| f.group.clone()).collect())),
        (tags::FILEDIGESTALGO, Val::Int32(vec![8])),
        (tags::DIRINDEXES, Val::Int32(dirindexes)),
        (tags::BASENAMES, sa(files.iter().map(|f| f.base.clone()).collect())),
        (tags::DIRNAMES, sa(dirs)),
    ];
    if long_sizes {
        v.push((tags::LONGFILESIZES, Val::Int64(files.iter().map(|f| f.content.len() as u64).collect())));
    } else {
        v.push((tags::FILESIZES, Val::Int32(files.iter().map(|f| f.content.len() as u32).collect())));
    }
    v
}

pub fn basic_entries(name: &str) -> Vec<(u32, Val)> {
    vec![
        (tags::NAME, Val::s(name)),
        (tags::VERSION, Val::s("1.0")),
        (tags::RELEASE, Val::s("1")),
        (tags::SUMMARY, Val::i18n(&["hand-encoded package"])),
        (tags::DESCRIPTION, Val::i18n(&["hand-encoded package"])),
        (tags::LICENSE, Val::s("MIT")),
        (tags::ARCH, Val::s("noarch")),
        (tags::OS, Val::s("linux")),
    ]
}

/// sort entries by tag and wrap them with a region tag into a complete, digest-carrying package
pub fn wrap(mut main: Vec<(u32, Val)>, payload: Vec<u8>, with_payload_digest: bool) -> RawPackage {
    if with_payload_digest {
        main.push((tags::PAYLOADDIGEST, Val::sa(&[&digests::sha256_hex(&[&payload])])));
        main.push((tags::PAYLOADDIGESTALGO, Val::Int32(vec![8])));
    }
    main.sort_by_key(|e| e.0);
    let hdr = fmt::layout(&main, Some(fmt::TAG_HEADERIMMUTABLE));
    let hb = hdr.bytes();
    let mut sig_entries = vec![
        (tags::SIG_SHA1, Val::s(&digests::sha1_hex(&[&hb]))),
        (tags::SIG_SHA256, Val::s(&digests::sha256_hex(&[&hb]))),
        (tags::SIG_MD5, Val::Bin(digests::md5_raw(&[&hb, &payload]))),
    ];
    sig_entries.sort_by_key(|e| e.0);
    let sig = fmt::layout(&sig_entries, Some(fmt::TAG_HEADERSIGNATURES));
    let pad = vec![0u8; fmt::sig_padding(sig.dl)];
    RawPackage {
        lead: fmt::default_lead("hand-1.0-1"),
        sig,
        sig_pad: pad,
        hdr,
        payload,
    }
}

/// the well-formed newc archive for `files` (ghost files omitted), in the given order
pub fn archive_for(files: &[ModelFile]) -> Vec<CpioSpec> {
    let mut v: Vec<CpioSpec> = files
        .iter()
        .enumerate()
        .filter(|(_, f)| !f.is_ghost())
        .map(|(i, f)| CpioSpec::newc(&f.cpio_name(), f.mode as u32, i as u32 + 1, f.content.clone()))
        .collect();
    v.push(CpioSpec::trailer());
    v
}

pub fn dir_name() -> BoxedStrategy<String> {
    prop_oneof![
        1 => Just("/".to_string()),
        4 => vec("[a-z]{1,5}", 1..4).prop_map(|c| format!("/{}/", c.join("/"))),
    ]
    .boxed()
}

pub fn model_file(max_content: usize) -> BoxedStrategy<ModelFile> {
    (
        dir_name(),
        prop_oneof![12 => "[a-z]{1,6}(\\.[a-z]{1,3})?", 1 => Just("TRAILER!!!".to_string())],
        prop_oneof![6 => (0u16..0o10000).prop_map(|p| 0o100000 | p), 1 => (0u16..0o10000).prop_map(|p| 0o040000 | p), 1 => Just(0o120777u16)],
        any::<u32>(),
        prop_oneof![4 => Just(0u32), 1 => Just(64u32), 1 => Just(1u32), 1 => Just(2u32)],
        proptest::sample::select(vec!["root", "alice", "bob"]),
        vec(any::<u8>(), 0..max_content),
        "[a-z/.]{1,10}",
    )
        .prop_map(|(dir, base, mode, mtime, flags, user, content, target)| {
            let (content, linkto) = match mode & 0o170000 {
                0o040000 => (vec![], String::new()),
                0o120000 => (target.clone().into_bytes(), target),
                _ => (content, String::new()),
            };
            ModelFile {
                dir,
                base,
                mode,
                mtime,
                flags,
                user: user.to_string(),
                group: user.to_string(),
                linkto,
                content,
            }
        })
        .boxed()
}

/// files with pairwise distinct paths
pub fn model_files(max: usize, max_content: usize) -> BoxedStrategy<Vec<ModelFile>> {
    vec(model_file(max_content), 0..=max)
        .prop_map(|fs| {
            let mut seen = std::collections::BTreeSet::new();
            fs.into_iter().filter(|f| seen.insert(f.path())).collect()
        })
        .boxed()
}
