pub mod builder;
pub mod filepkg;
pub mod keys;
pub mod mutate;
pub mod pool;
pub mod raw;
