//! G-mutate: byte-level mutations with positions expressed as 32-bit fractions of the length
//! (monotone mapping, so proptest shrinking moves positions towards the start).

use crate::engine::hexser;
use proptest::prelude::*;
use serde::{Deserialize, Serialize};

#[derive(Serialize, Deserialize, Clone, Debug, PartialEq)]
pub enum Mutation {
    BitFlip { pos: u32, bit: u8 },
    SetByte { pos: u32, val: u8 },
    AddByte { pos: u32, delta: u8 },
    /// overwrite a 4-aligned big-endian u32
    SetU32 { pos: u32, val: u32 },
    Delete { pos: u32, len: u16 },
    Dup { pos: u32, len: u16 },
    Insert {
        pos: u32,
        #[serde(with = "hexser")]
        bytes: Vec<u8>,
    },
    Truncate { pos: u32 },
}

pub fn scale(pos: u32, len: usize) -> usize {
    ((pos as u64 * len as u64) >> 32) as usize
}

pub fn boundary_u32() -> impl Strategy<Value = u32> {
    prop_oneof![
        Just(0u32),
        Just(1),
        Just(2),
        Just(7),
        Just(8),
        Just(15),
        Just(16),
        Just(0xff),
        Just(0x100),
        Just(0xffff),
        Just(0x10000),
        Just(0x0fff_ffff),
        Just(0x1000_0000),
        Just(0x7fff_ffff),
        Just(0x8000_0000),
        Just(0xffff_fff0),
        Just(0xffff_ffff),
        any::<u32>(),
        0u32..64,
    ]
}

pub fn mutation() -> impl Strategy<Value = Mutation> {
    prop_oneof![
        3 => (any::<u32>(), 0u8..8).prop_map(|(pos, bit)| Mutation::BitFlip { pos, bit }),
        2 => (any::<u32>(), prop_oneof![Just(0u8), Just(0xff), Just(0x7f), Just(0x80), any::<u8>()])
            .prop_map(|(pos, val)| Mutation::SetByte { pos, val }),
        1 => (any::<u32>(), prop_oneof![Just(1u8), Just(0xff)]).prop_map(|(pos, delta)| Mutation::AddByte { pos, delta }),
        3 => (any::<u32>(), boundary_u32()).prop_map(|(pos, val)| Mutation::SetU32 { pos, val }),
        1 => (any::<u32>(), 1u16..64).prop_map(|(pos, len)| Mutation::Delete { pos, len }),
        1 => (any::<u32>(), 1u16..64).prop_map(|(pos, len)| Mutation::Dup { pos, len }),
        1 => (any::<u32>(), proptest::collection::vec(any::<u8>(), 1..16))
            .prop_map(|(pos, bytes)| Mutation::Insert { pos, bytes }),
        1 => any::<u32>().prop_map(|pos| Mutation::Truncate { pos }),
    ]
}

/// apply mutations inside `range` of `data` (positions are fractions of the range length)
pub fn apply(data: &mut Vec<u8>, range: std::ops::Range<usize>, muts: &[Mutation]) {
    let lo = range.start.min(data.len());
    let mut hi = range.end.min(data.len());
    for m in muts {
        let len = hi.saturating_sub(lo);
        if len == 0 {
            break;
        }
        match m {
            Mutation::BitFlip { pos, bit } => data[lo + scale(*pos, len)] ^= 1 << bit,
            Mutation::SetByte { pos, val } => data[lo + scale(*pos, len)] = *val,
            Mutation::AddByte { pos, delta } => {
                let p = lo + scale(*pos, len);
                data[p] = data[p].wrapping_add(*delta)
            }
            Mutation::SetU32 { pos, val } => {
                let p = lo + (scale(*pos, len) & !3);
                if p + 4 <= data.len() {
                    data[p..p + 4].copy_from_slice(&val.to_be_bytes());
                }
            }
            Mutation::Delete { pos, len: n } => {
                let p = lo + scale(*pos, len);
                let e = (p + *n as usize).min(hi);
                data.drain(p..e);
                hi -= e - p;
            }
            Mutation::Dup { pos, len: n } => {
                let p = lo + scale(*pos, len);
                let e = (p + *n as usize).min(hi);
                let chunk = data[p..e].to_vec();
                hi += chunk.len();
                data.splice(p..p, chunk);
            }
            Mutation::Insert { pos, bytes } => {
                let p = lo + scale(*pos, len);
                hi += bytes.len();
                data.splice(p..p, bytes.iter().copied());
            }
            Mutation::Truncate { pos } => {
                let p = lo + scale(*pos, len);
                data.truncate(p);
                hi = hi.min(data.len());
            }
        }
    }
}
