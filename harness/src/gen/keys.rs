//! The four test key pairs (copied to /verif/assets/keys).

use rpm::signature::pgp::{Signer, Verifier};
use std::sync::OnceLock;

pub const KEY_NAMES: [&str; 4] = ["rsa4096", "rsa3072_protected", "ed25519", "ecdsa_p256"];
const PASSPHRASE: &str = "thisisN0Tasecuredpassphrase";

pub struct KeySet {
    pub signers: Vec<Signer>,
    pub verifiers: Vec<Verifier>,
    /// lower-case hex key id of the primary secret key, derived with the pgp crate directly
    pub key_ids: Vec<String>,
}

fn key_dir() -> std::path::PathBuf {
    crate::engine::verif_root().join("assets/keys")
}

pub fn keys() -> &'static KeySet {
    static K: OnceLock<KeySet> = OnceLock::new();
    K.get_or_init(|| {
        let mut signers = vec![];
        let mut verifiers = vec![];
        let mut key_ids = vec![];
        for name in KEY_NAMES {
            let sec = std::fs::read(key_dir().join(format!("secret_{name}.asc")))
                .unwrap_or_else(|e| panic!("missing key secret_{name}.asc: {e}"));
            let public = std::fs::read(key_dir().join(format!("public_{name}.asc")))
                .unwrap_or_else(|e| panic!("missing key public_{name}.asc: {e}"));
            let mut s = Signer::load_from_asc_bytes(&sec).expect("load signer");
            if name == "rsa3072_protected" {
                s = s.with_key_passphrase(PASSPHRASE);
            }
            signers.push(s);
            verifiers.push(Verifier::load_from_asc_bytes(&public).expect("load verifier"));
            {
                use pgp::composed::Deserializable;
                use pgp::types::PublicKeyTrait;
                let (k, _) = pgp::SignedSecretKey::from_string(std::str::from_utf8(&sec).unwrap())
                    .expect("parse secret key");
                key_ids.push(hex::encode(k.key_id().as_ref()));
            }
        }
        KeySet {
            signers,
            verifiers,
            key_ids,
        }
    })
}
