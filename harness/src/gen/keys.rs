//! The four test key pairs (copied to /verif/assets/keys).

use rpm::signature::pgp::{Signer, Verifier};
use std::sync::OnceLock;

pub const KEY_NAMES: [&str; 4] = ["rsa4096", "rsa3072_protected", "ed25519", "ecdsa_p256"];
const PASSPHRASE: &str = "thisisN0Tasecuredpassphrase";

pub struct KeySet {
    pub signers: Vec<Signer>,
    pub verifiers: Vec<Verifier>,
    /// lower-case hex key id of the primary secret key, derived with the pgp crate directly
    pub key_ids: Vec<String>,
}

fn key_dir() -> std::path::PathBuf {
    crate::engine::verif_root().join("assets/keys")
}

pub fn keys() -> &'static KeySet {
    static K: OnceLock<KeySet> = OnceLock::new();
    K.get_or_init(|| {
        let mut signers = vec![];
        let mut verifiers = vec![];
        let mut key_ids = vec![];
        for name in KEY_NAMES {
            let sec = std::fs::read(key_dir().join(format!("secret_{name}.asc")))
                .unwrap_or_else(|e| panic!("missing key secret_{name}.asc: {e}"));
            let public = std::fs::read(key_dir().join(format!("public_{name}.asc")))
                .unwrap_or_else(|e| panic!("missing key public_{name}.asc: {e}"));
            let mut s = Signer::load_from_asc_bytes(&sec).expect("load signer");
            if name == "rsa3072_protected" {
                s = s.with_key_passphrase(PASSPHRASE);
            }
            signers.push(s);
            verifiers.push(Verifier::load_from_asc_bytes(&public).expect("load verifier"));
            {
                use pgp::composed::Deserializable;
                use pgp::types::PublicKeyTrait;
                let (k, _) = pgp::SignedSecretKey::from_string(std::str::from_utf8(&sec).unwrap())
                    .expect("parse secret key");
                key_ids.push(hex::encode(k.key_id().as_ref()));
            }
        }
        KeySet {
            signers,
            verifiers,
            key_ids,
        }
    })
}


/// Keys generated at run time (deterministically: fixed creation time, seeded RNG) until their
/// 64-bit key ids have a shape the four fixture keys lack: a leading zero hex digit, a leading
/// zero byte, and only-decimal digits in the first byte. A key id is 16 hex digits whatever its
/// value.
pub struct GenKey {
    pub what: &'static str,
    pub signer: Signer,
    pub verifier: Verifier,
    pub key_id: String,
}

pub fn generated_keys() -> &'static Vec<GenKey> {
    static K: OnceLock<Vec<GenKey>> = OnceLock::new();
    K.get_or_init(|| {
        use pgp::composed::{KeyType, SecretKeyParamsBuilder};
        use pgp::types::{PublicKeyTrait, SecretKeyTrait};
        use pgp::ArmorOptions;
        use rand::SeedableRng;
        let created = chrono::DateTime::<chrono::Utc>::from_timestamp(1_500_000_000, 0).expect("fixed instant");
        let wanted: [(&'static str, fn(&str) -> bool); 2] = [("key id with a leading zero digit", |id| id.starts_with('0') && !id.starts_with("00")), ("key id with a leading zero byte", |id| id.starts_with("00"))];
        let mut out: Vec<GenKey> = vec![];
        let mut rng = rand::rngs::StdRng::seed_from_u64(0x5eed_c10);
        for _ in 0..20_000 {
            if out.len() == wanted.len() {
                break;
            }
            let params = SecretKeyParamsBuilder::default()
                .key_type(KeyType::EdDSALegacy)
                .can_sign(true)
                .can_certify(true)
                .primary_user_id("generated <generated@example.org>".into())
                .created_at(created)
                .build()
                .expect("key parameters");
            let Ok(sk) = params.generate(&mut rng) else { continue };
            let Ok(ssk) = sk.sign(&mut rng, String::new) else { continue };
            let id = hex::encode(ssk.key_id().as_ref());
            let Some((what, _)) = wanted.iter().find(|(w, f)| f(&id) && !out.iter().any(|g| g.what == *w)) else { continue };
            let Ok(sec) = ssk.to_armored_string(ArmorOptions::default()) else { continue };
            let Ok(spk) = ssk.public_key().sign(&mut rng, &ssk, String::new) else { continue };
            let Ok(public) = spk.to_armored_string(ArmorOptions::default()) else { continue };
            let (Ok(signer), Ok(verifier)) = (Signer::load_from_asc_bytes(sec.as_bytes()), Verifier::load_from_asc_bytes(public.as_bytes())) else { continue };
            out.push(GenKey { what, signer, verifier, key_id: id });
        }
        out
    })
}
