//! G-package-pool: the six rpmbuild-made assets, packages built/signed by the library, and
//! hand-encoded minimal packages - bases for mutation, truncation, bit-flip and history cases.

use super::builder::*;
use crate::engine::panics;
use crate::refimpl::fmt::{self, Val};
use crate::refimpl::tags;
use std::sync::OnceLock;

pub struct PoolItem {
    pub name: String,
    pub bytes: Vec<u8>,
    /// produced by an external rpmbuild (asset) rather than by this library / by hand
    pub asset: bool,
    pub signed_by: Option<usize>,
}

pub const ASSETS: [&str; 6] = [
    "rpm-empty-0-0.x86_64.rpm",
    "rpm-empty-0-0.src.rpm",
    "ima_signed.rpm",
    "freesrp-udev-0.3.0-1.25.x86_64.rpm",
    "rpm-sign-4.15.1-1.fc31.x86_64.rpm",
    "389-ds-base-devel-1.3.8.4-15.el7.x86_64.rpm",
];

pub fn asset_bytes(name: &str) -> Vec<u8> {
    let p = crate::engine::verif_root().join("assets").join(name);
    std::fs::read(&p).unwrap_or_else(|e| {
        eprintln!("missing asset {}: {e}", p.display());
        std::process::exit(2)
    })
}

fn small_file(path: &[&str], size: u32, kind: u8) -> FileSpec {
    FileSpec {
        dot_style: false,
        components: path.iter().map(|s| s.to_string()).collect(),
        content: ContentSpec { size, kind, seed: 7 },
        mode: ModeSpec::Regular(0o644),
        user: None,
        group: None,
        flags: 0,
        caps: None,
        symlink: None,
        mtime: 1_500_000_000,
        verify: None,
        mode_as_int: 0,
    }
}

pub fn pool_configs() -> Vec<(String, BuilderConfig)> {
    let mut v = vec![];
    for kind in 1u8..6 {
        let mut c = BuilderConfig::minimal("poolpkg");
        // low levels: the default levels (xz 9, zstd 19) cost hundreds of MB of encoder memory,
        // and the pool is rebuilt in every worker process
        c.compression = Comp { kind, level: if kind == 1 { None } else { Some(1) } };
        c.source_date = Some(1_600_000_000);
        v.push((format!("built-{}-nofiles", c.compression.name()), c.clone()));
        c.files = vec![
            small_file(&["etc", "pool", "a.conf"], 37, 1),
            small_file(&["usr", "bin", "tool"], 300, 2),
        ];
        c.description = Some("a pool package\nwith two files".into());
        c.deps = vec![DepSpec { kind: 0, ctor: 1, name: "libfoo".into(), version: "1.2".into() }];
        v.push((format!("built-{}-files", c.compression.name()), c));
    }
    for k in 0u8..4 {
        let mut c = BuilderConfig::minimal("signedpkg");
        c.compression = Comp { kind: 2, level: Some(1) };
        c.source_date = Some(1_600_000_000);
        c.signer = Some(k);
        v.push((format!("signed-{}-nofiles", super::keys::KEY_NAMES[k as usize]), c.clone()));
        c.files = vec![small_file(&["opt", "x"], 5, 1)];
        v.push((format!("signed-{}-file", super::keys::KEY_NAMES[k as usize]), c));
    }
    v
}

pub fn hand_minimal() -> Vec<u8> {
    let hdr = fmt::layout(
        &[
            (tags::NAME, Val::s("hand")),
            (tags::VERSION, Val::s("1")),
            (tags::RELEASE, Val::s("1")),
            (tags::SUMMARY, Val::i18n(&["hand made"])),
        ],
        Some(fmt::TAG_HEADERIMMUTABLE),
    );
    let hb = hdr.bytes();
    let sig = fmt::layout(
        &[(tags::SIG_SHA256, Val::s(&crate::refimpl::digests::sha256_hex(&[&hb])))],
        Some(fmt::TAG_HEADERSIGNATURES),
    );
    let pad = vec![0u8; fmt::sig_padding(sig.dl)];
    fmt::RawPackage {
        lead: fmt::default_lead("hand-1-1"),
        sig,
        sig_pad: pad,
        hdr,
        payload: vec![],
    }
    .encode()
}

pub fn pool() -> &'static Vec<PoolItem> {
    static P: OnceLock<Vec<PoolItem>> = OnceLock::new();
    P.get_or_init(|| {
        let mut items = vec![];
        for a in ASSETS {
            items.push(PoolItem {
                name: a.to_string(),
                bytes: asset_bytes(a),
                asset: true,
                signed_by: None,
            });
        }
        for (name, cfg) in pool_configs() {
            let r = panics::catch(|| {
                let b = build(&cfg);
                b.result.ok().and_then(|p| {
                    let mut v = Vec::new();
                    p.write(&mut v).ok().map(|_| v)
                })
            });
            match r {
                Ok(Some(bytes)) => items.push(PoolItem {
                    name,
                    bytes,
                    asset: false,
                    signed_by: cfg.signer.map(|k| k as usize),
                }),
                Ok(None) => eprintln!("pool: building {name} returned an error (skipped)"),
                Err(p) => eprintln!("pool: building {name} panicked: {p} (skipped)"),
            }
        }
        items.push(PoolItem {
            name: "hand-minimal".into(),
            bytes: hand_minimal(),
            asset: false,
            signed_by: None,
        });
        items
    })
}

/// items small enough for exhaustive per-offset work
pub fn small_items(max: usize) -> Vec<&'static PoolItem> {
    pool().iter().filter(|i| i.bytes.len() <= max).collect()
}
