pub mod caps;
pub mod cpio;
pub mod digests;
pub mod fmt;
pub mod strict;
pub mod tags;
pub mod vercmp;
