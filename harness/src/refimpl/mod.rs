pub mod cpio;
pub mod digests;
pub mod fmt;
pub mod tags;
