//! R5: digests recomputed with RustCrypto directly
use md5::Md5;
use sha1::Sha1;
use sha2::{Digest, Sha256};

pub fn sha256_hex(parts: &[&[u8]]) -> String {
    let mut h = Sha256::new();
    for p in parts {
        h.update(p);
    }
    hex::encode(h.finalize())
}
pub fn sha1_hex(parts: &[&[u8]]) -> String {
    let mut h = Sha1::new();
    for p in parts {
        h.update(p);
    }
    hex::encode(h.finalize())
}
pub fn md5_raw(parts: &[&[u8]]) -> Vec<u8> {
    let mut h = Md5::new();
    for p in parts {
        h.update(p);
    }
    h.finalize().to_vec()
}
pub fn md5_hex(parts: &[&[u8]]) -> String {
    hex::encode(md5_raw(parts))
}
