//! R1/R2: independent encoder and decoder of the RPM v3/v4 package format.
//! All constants are written out from rpm's C headers; nothing is imported from the `rpm` crate.

use crate::engine::hexser;
use serde::{Deserialize, Serialize};

pub const LEAD_LEN: usize = 96;
pub const LEAD_MAGIC: [u8; 4] = [0xed, 0xab, 0xee, 0xdb];
pub const HDR_MAGIC: [u8; 3] = [0x8e, 0xad, 0xe8];

pub const T_NULL: u32 = 0;
pub const T_CHAR: u32 = 1;
pub const T_INT8: u32 = 2;
pub const T_INT16: u32 = 3;
pub const T_INT32: u32 = 4;
pub const T_INT64: u32 = 5;
pub const T_STRING: u32 = 6;
pub const T_BIN: u32 = 7;
pub const T_STRING_ARRAY: u32 = 8;
pub const T_I18NSTRING: u32 = 9;

pub const TAG_HEADERSIGNATURES: u32 = 62;
pub const TAG_HEADERIMMUTABLE: u32 = 63;

#[derive(Serialize, Deserialize, Clone, Debug, PartialEq, Eq)]
pub struct RawEntry {
    pub tag: u32,
    pub typ: u32,
    pub offset: i32,
    pub count: u32,
}

#[derive(Serialize, Deserialize, Clone, Debug, PartialEq, Eq)]
pub struct RawHeader {
    pub magic: [u8; 3],
    pub version: u8,
    pub reserved: [u8; 4],
    /// index length field as written (normally entries.len())
    pub il: u32,
    /// data length field as written (normally store.len())
    pub dl: u32,
    pub entries: Vec<RawEntry>,
    #[serde(with = "hexser")]
    pub store: Vec<u8>,
}

impl RawHeader {
    pub fn new(entries: Vec<RawEntry>, store: Vec<u8>) -> Self {
        RawHeader {
            magic: HDR_MAGIC,
            version: 1,
            reserved: [0; 4],
            il: entries.len() as u32,
            dl: store.len() as u32,
            entries,
            store,
        }
    }
    pub fn encode(&self, out: &mut Vec<u8>) {
        out.extend_from_slice(&self.magic);
        out.push(self.version);
        out.extend_from_slice(&self.reserved);
        out.extend_from_slice(&self.il.to_be_bytes());
        out.extend_from_slice(&self.dl.to_be_bytes());
        for e in &self.entries {
            out.extend_from_slice(&e.tag.to_be_bytes());
            out.extend_from_slice(&e.typ.to_be_bytes());
            out.extend_from_slice(&e.offset.to_be_bytes());
            out.extend_from_slice(&e.count.to_be_bytes());
        }
        out.extend_from_slice(&self.store);
    }
    pub fn bytes(&self) -> Vec<u8> {
        let mut v = Vec::new();
        self.encode(&mut v);
        v
    }
    /// the bytes rpm hashes/signs: intro with the canonical magic and zero reserved bytes
    pub fn normalized_bytes(&self) -> Vec<u8> {
        let mut h = self.clone();
        h.reserved = [0; 4];
        h.bytes()
    }
}

#[derive(Serialize, Deserialize, Clone, Debug, PartialEq, Eq)]
pub struct RawPackage {
    #[serde(with = "hexser")]
    pub lead: Vec<u8>,
    pub sig: RawHeader,
    #[serde(with = "hexser")]
    pub sig_pad: Vec<u8>,
    pub hdr: RawHeader,
    #[serde(with = "hexser")]
    pub payload: Vec<u8>,
}

impl RawPackage {
    pub fn encode(&self) -> Vec<u8> {
        let mut out = Vec::new();
        out.extend_from_slice(&self.lead);
        self.sig.encode(&mut out);
        out.extend_from_slice(&self.sig_pad);
        self.hdr.encode(&mut out);
        out.extend_from_slice(&self.payload);
        out
    }
}

/// a default, well-formed lead
pub fn default_lead(name: &str) -> Vec<u8> {
    let mut l = vec![0u8; LEAD_LEN];
    l[..4].copy_from_slice(&LEAD_MAGIC);
    l[4] = 3; // major
    l[5] = 0; // minor
              // type 0 (binary), arch 0
    let n = name.as_bytes();
    let k = n.len().min(65);
    l[10..10 + k].copy_from_slice(&n[..k]);
    l[76..78].copy_from_slice(&1u16.to_be_bytes()); // os
    l[78..80].copy_from_slice(&5u16.to_be_bytes()); // signature type
    l
}

pub fn sig_padding(dl: u32) -> usize {
    ((8 - (dl % 8)) % 8) as usize
}

// ---------------------------------------------------------------------------------------------
// typed values and the layout encoder

#[derive(Serialize, Deserialize, Clone, Debug, PartialEq, Eq)]
pub enum Val {
    Null,
    Char(#[serde(with = "hexser")] Vec<u8>),
    Int8(#[serde(with = "hexser")] Vec<u8>),
    Int16(Vec<u16>),
    Int32(Vec<u32>),
    Int64(Vec<u64>),
    /// one NUL-terminated string (bytes without the NUL)
    Str(#[serde(with = "hexser")] Vec<u8>),
    Bin(#[serde(with = "hexser")] Vec<u8>),
    StrArray(Vec<HexBytes>),
    I18n(Vec<HexBytes>),
}

#[derive(Serialize, Deserialize, Clone, Debug, PartialEq, Eq, PartialOrd, Ord)]
pub struct HexBytes(#[serde(with = "hexser")] pub Vec<u8>);

impl Val {
    pub fn s(x: &str) -> Val {
        Val::Str(x.as_bytes().to_vec())
    }
    pub fn sa(x: &[&str]) -> Val {
        Val::StrArray(x.iter().map(|s| HexBytes(s.as_bytes().to_vec())).collect())
    }
    pub fn i18n(x: &[&str]) -> Val {
        Val::I18n(x.iter().map(|s| HexBytes(s.as_bytes().to_vec())).collect())
    }
    pub fn typ(&self) -> u32 {
        match self {
            Val::Null => T_NULL,
            Val::Char(_) => T_CHAR,
            Val::Int8(_) => T_INT8,
            Val::Int16(_) => T_INT16,
            Val::Int32(_) => T_INT32,
            Val::Int64(_) => T_INT64,
            Val::Str(_) => T_STRING,
            Val::Bin(_) => T_BIN,
            Val::StrArray(_) => T_STRING_ARRAY,
            Val::I18n(_) => T_I18NSTRING,
        }
    }
    pub fn count(&self) -> u32 {
        match self {
            Val::Null => 0,
            Val::Char(v) | Val::Int8(v) | Val::Bin(v) => v.len() as u32,
            Val::Int16(v) => v.len() as u32,
            Val::Int32(v) => v.len() as u32,
            Val::Int64(v) => v.len() as u32,
            Val::Str(_) => 1,
            Val::StrArray(v) | Val::I18n(v) => v.len() as u32,
        }
    }
    pub fn align(&self) -> usize {
        match self {
            Val::Int16(_) => 2,
            Val::Int32(_) => 4,
            Val::Int64(_) => 8,
            _ => 1,
        }
    }
    pub fn data(&self) -> Vec<u8> {
        let mut d = Vec::new();
        match self {
            Val::Null => {}
            Val::Char(v) | Val::Int8(v) | Val::Bin(v) => d.extend_from_slice(v),
            Val::Int16(v) => v.iter().for_each(|x| d.extend_from_slice(&x.to_be_bytes())),
            Val::Int32(v) => v.iter().for_each(|x| d.extend_from_slice(&x.to_be_bytes())),
            Val::Int64(v) => v.iter().for_each(|x| d.extend_from_slice(&x.to_be_bytes())),
            Val::Str(s) => {
                d.extend_from_slice(s);
                d.push(0);
            }
            Val::StrArray(v) | Val::I18n(v) => {
                for s in v {
                    d.extend_from_slice(&s.0);
                    d.push(0);
                }
            }
        }
        d
    }
}

/// Lay out typed entries into index + store with rpm's alignment rules. If `region` is given a
/// region entry (type BIN, count 16) is put first in the index and its 16-byte trailer at the
/// end of the store, as rpmbuild does. Entries are laid out in the order given.
pub fn layout(entries: &[(u32, Val)], region: Option<u32>) -> RawHeader {
    layout_with_dribbles(entries, region, 0)
}

/// Like `layout`, but the last `outside` entries are left outside the region ("dribbles", as rpm
/// writes them when tags are added to a header after it was sealed): their index records follow
/// the records the region covers and their data follows the region trailer in the store.
pub fn layout_with_dribbles(entries: &[(u32, Val)], region: Option<u32>, outside: usize) -> RawHeader {
    let outside = if region.is_some() { outside.min(entries.len()) } else { 0 };
    let (entries, dribbles) = entries.split_at(entries.len() - outside);
    let mut store: Vec<u8> = Vec::new();
    let mut idx: Vec<RawEntry> = Vec::new();
    for (tag, v) in entries {
        let a = v.align();
        while store.len() % a != 0 {
            store.push(0);
        }
        idx.push(RawEntry {
            tag: *tag,
            typ: v.typ(),
            offset: store.len() as i32,
            count: v.count(),
        });
        store.extend_from_slice(&v.data());
    }
    if let Some(rt) = region {
        let il = idx.len() as i32 + 1;
        let region_entry = RawEntry {
            tag: rt,
            typ: T_BIN,
            offset: store.len() as i32,
            count: 16,
        };
        // trailer: same tag/type/count, offset = -(il * 16)
        store.extend_from_slice(&rt.to_be_bytes());
        store.extend_from_slice(&T_BIN.to_be_bytes());
        store.extend_from_slice(&(-(il * 16)).to_be_bytes());
        store.extend_from_slice(&16u32.to_be_bytes());
        idx.insert(0, region_entry);
    }
    for (tag, v) in dribbles {
        let a = v.align();
        while store.len() % a != 0 {
            store.push(0);
        }
        idx.push(RawEntry {
            tag: *tag,
            typ: v.typ(),
            offset: store.len() as i32,
            count: v.count(),
        });
        store.extend_from_slice(&v.data());
    }
    RawHeader::new(idx, store)
}

// ---------------------------------------------------------------------------------------------
// decoder

#[derive(Clone, Debug)]
pub struct DecHeader {
    /// absolute offset of the intro
    pub start: usize,
    pub magic: [u8; 3],
    pub version: u8,
    pub reserved: [u8; 4],
    pub il: u32,
    pub dl: u32,
    pub entries: Vec<RawEntry>,
    /// absolute range of the store
    pub store_start: usize,
    pub end: usize,
}

impl DecHeader {
    pub fn store<'a>(&self, bytes: &'a [u8]) -> &'a [u8] {
        &bytes[self.store_start..self.end]
    }
    pub fn find(&self, tag: u32) -> Option<&RawEntry> {
        self.entries.iter().find(|e| e.tag == tag)
    }
    pub fn count_tag(&self, tag: u32) -> usize {
        self.entries.iter().filter(|e| e.tag == tag).count()
    }
}

#[derive(Clone, Debug)]
pub struct Segments {
    pub sig: DecHeader,
    pub pad_start: usize,
    pub hdr: DecHeader,
    pub payload_start: usize,
}

fn be32(b: &[u8], at: usize) -> Option<u32> {
    b.get(at..at + 4).map(|s| u32::from_be_bytes([s[0], s[1], s[2], s[3]]))
}

pub fn decode_header(bytes: &[u8], start: usize) -> Result<DecHeader, String> {
    let intro = bytes
        .get(start..start + 16)
        .ok_or_else(|| "truncated intro".to_string())?;
    let il = be32(intro, 8).unwrap();
    let dl = be32(intro, 12).unwrap();
    let idx_len = (il as u64) * 16;
    let total = 16u64 + idx_len + dl as u64;
    let end = start as u64 + total;
    if end > bytes.len() as u64 {
        return Err(format!("header of {} bytes exceeds input", total));
    }
    let mut entries = Vec::with_capacity(il as usize);
    let mut at = start + 16;
    for _ in 0..il {
        entries.push(RawEntry {
            tag: be32(bytes, at).unwrap(),
            typ: be32(bytes, at + 4).unwrap(),
            offset: be32(bytes, at + 8).unwrap() as i32,
            count: be32(bytes, at + 12).unwrap(),
        });
        at += 16;
    }
    Ok(DecHeader {
        start,
        magic: [intro[0], intro[1], intro[2]],
        version: intro[3],
        reserved: [intro[4], intro[5], intro[6], intro[7]],
        il,
        dl,
        entries,
        store_start: at,
        end: end as usize,
    })
}

/// split a package into its segments without interpreting entry data
pub fn decode(bytes: &[u8]) -> Result<Segments, String> {
    if bytes.len() < LEAD_LEN {
        return Err("truncated lead".into());
    }
    let sig = decode_header(bytes, LEAD_LEN)?;
    let pad = sig_padding(sig.dl);
    let pad_start = sig.end;
    if pad_start + pad > bytes.len() {
        return Err("truncated signature padding".into());
    }
    let hdr = decode_header(bytes, pad_start + pad)?;
    let payload_start = hdr.end;
    Ok(Segments {
        sig,
        pad_start,
        hdr,
        payload_start,
    })
}

/// the normal form of C01: reserved intro bytes and signature padding zeroed
pub fn normalize(bytes: &[u8], seg: &Segments) -> Vec<u8> {
    let mut n = bytes.to_vec();
    for h in [&seg.sig, &seg.hdr] {
        for b in &mut n[h.start + 4..h.start + 8] {
            *b = 0;
        }
    }
    for b in &mut n[seg.pad_start..seg.hdr.start] {
        *b = 0;
    }
    n
}

/// header bytes as rpm hashes them (reserved bytes zero)
pub fn normalized_header_bytes(bytes: &[u8], h: &DecHeader) -> Vec<u8> {
    let mut v = bytes[h.start..h.end].to_vec();
    for b in &mut v[4..8] {
        *b = 0;
    }
    v
}

/// rpm's dataLength(): number of store bytes an entry occupies, None if malformed
pub fn data_length(store: &[u8], e: &RawEntry) -> Option<usize> {
    if e.offset < 0 {
        return None;
    }
    let off = e.offset as usize;
    if off > store.len() {
        return None;
    }
    let rest = &store[off..];
    let cnt = e.count as usize;
    match e.typ {
        T_NULL => Some(0),
        T_CHAR | T_INT8 | T_BIN => (cnt <= rest.len()).then_some(cnt),
        T_INT16 => cnt.checked_mul(2).filter(|n| *n <= rest.len()),
        T_INT32 => cnt.checked_mul(4).filter(|n| *n <= rest.len()),
        T_INT64 => cnt.checked_mul(8).filter(|n| *n <= rest.len()),
        T_STRING => {
            if cnt != 1 {
                return None;
            }
            rest.iter().position(|b| *b == 0).map(|p| p + 1)
        }
        T_STRING_ARRAY | T_I18NSTRING => {
            let mut at = 0usize;
            for _ in 0..cnt {
                let p = rest[at..].iter().position(|b| *b == 0)?;
                at += p + 1;
            }
            Some(at)
        }
        _ => None,
    }
}

/// decode one entry's data independently (None when out of range / unterminated)
pub fn decode_entry(store: &[u8], e: &RawEntry) -> Option<Val> {
    let len = data_length(store, e)?;
    let off = e.offset as usize;
    let d = &store[off..off + len];
    Some(match e.typ {
        T_NULL => Val::Null,
        T_CHAR => Val::Char(d.to_vec()),
        T_INT8 => Val::Int8(d.to_vec()),
        T_BIN => Val::Bin(d.to_vec()),
        T_INT16 => Val::Int16(
            d.chunks(2)
                .map(|c| u16::from_be_bytes([c[0], c[1]]))
                .collect(),
        ),
        T_INT32 => Val::Int32(
            d.chunks(4)
                .map(|c| u32::from_be_bytes([c[0], c[1], c[2], c[3]]))
                .collect(),
        ),
        T_INT64 => Val::Int64(
            d.chunks(8)
                .map(|c| u64::from_be_bytes([c[0], c[1], c[2], c[3], c[4], c[5], c[6], c[7]]))
                .collect(),
        ),
        T_STRING => Val::Str(d[..len - 1].to_vec()),
        T_STRING_ARRAY | T_I18NSTRING => {
            let mut items = Vec::new();
            let mut at = 0;
            for _ in 0..e.count {
                let p = d[at..].iter().position(|b| *b == 0).unwrap();
                items.push(HexBytes(d[at..at + p].to_vec()));
                at += p + 1;
            }
            if e.typ == T_STRING_ARRAY {
                Val::StrArray(items)
            } else {
                Val::I18n(items)
            }
        }
        _ => return None,
    })
}

/// typed lookup helpers on a decoded header
pub fn get_val(bytes: &[u8], h: &DecHeader, tag: u32) -> Option<Val> {
    let e = h.find(tag)?;
    decode_entry(h.store(bytes), e)
}

pub fn get_str(bytes: &[u8], h: &DecHeader, tag: u32) -> Option<String> {
    match get_val(bytes, h, tag)? {
        Val::Str(s) => String::from_utf8(s).ok(),
        _ => None,
    }
}

pub fn get_str_array(bytes: &[u8], h: &DecHeader, tag: u32) -> Option<Vec<String>> {
    match get_val(bytes, h, tag)? {
        Val::StrArray(v) | Val::I18n(v) => v.into_iter().map(|b| String::from_utf8(b.0).ok()).collect(),
        _ => None,
    }
}

pub fn get_u32s(bytes: &[u8], h: &DecHeader, tag: u32) -> Option<Vec<u32>> {
    match get_val(bytes, h, tag)? {
        Val::Int32(v) => Some(v),
        _ => None,
    }
}

pub fn get_u16s(bytes: &[u8], h: &DecHeader, tag: u32) -> Option<Vec<u16>> {
    match get_val(bytes, h, tag)? {
        Val::Int16(v) => Some(v),
        _ => None,
    }
}

pub fn get_u64s(bytes: &[u8], h: &DecHeader, tag: u32) -> Option<Vec<u64>> {
    match get_val(bytes, h, tag)? {
        Val::Int64(v) => Some(v),
        _ => None,
    }
}
