//! R3: rpm's loader rules (rpmLeadRead, hdrblobRead, hdrblobVerifyRegion, hdrblobVerifyInfo)
//! restricted to the clauses named in the C09 statement.

use super::fmt::*;

const HEADER_TAGS_MAX: u32 = 0x0000_ffff;
const HEADER_DATA_MAX: u32 = 0x0fff_ffff;

fn type_align(t: u32) -> i32 {
    match t {
        T_INT16 => 2,
        T_INT32 => 4,
        T_INT64 => 8,
        _ => 1,
    }
}

pub fn validate_lead(lead: &[u8]) -> Result<(), String> {
    if lead.len() < LEAD_LEN {
        return Err("lead shorter than 96 bytes".into());
    }
    if lead[..4] != LEAD_MAGIC {
        return Err("lead magic".into());
    }
    if lead[4] != 3 {
        return Err(format!("lead major version {} (rpm accepts 3 and 4 only; 3 expected)", lead[4]));
    }
    let sigtype = u16::from_be_bytes([lead[78], lead[79]]);
    if sigtype != 5 {
        return Err(format!("lead signature type {} != 5 (RPMSIGTYPE_HEADERSIG)", sigtype));
    }
    if !lead[10..76].contains(&0) {
        return Err("lead name not NUL-terminated".into());
    }
    let t = u16::from_be_bytes([lead[6], lead[7]]);
    if t > 1 {
        return Err(format!("lead package type {}", t));
    }
    Ok(())
}

/// validate one header blob; `region_tag` is 62 for the signature header, 63 for the main header
pub fn validate_header(bytes: &[u8], h: &DecHeader, region_tag: u32, what: &str) -> Result<(), String> {
    let e = |m: String| format!("{what}: {m}");
    if h.magic != HDR_MAGIC {
        return Err(e("intro magic".into()));
    }
    if h.version != 1 {
        return Err(e(format!("intro version {}", h.version)));
    }
    if h.il < 1 || h.il > HEADER_TAGS_MAX {
        return Err(e(format!("il {} out of range 1..=65535", h.il)));
    }
    if h.dl == 0 || h.dl > HEADER_DATA_MAX {
        return Err(e(format!("dl {} out of range", h.dl)));
    }
    let store = h.store(bytes);
    let dl = h.dl as i64;
    // region entry
    let r = &h.entries[0];
    if r.tag != region_tag {
        return Err(e(format!("first entry has tag {} instead of the region tag {}", r.tag, region_tag)));
    }
    if r.typ != T_BIN || r.count != 16 {
        return Err(e(format!("region entry type {} count {}", r.typ, r.count)));
    }
    if r.offset as i64 + 16 != dl {
        return Err(e(format!("region trailer at offset {} is not the last 16 bytes of the store (dl {})", r.offset, dl)));
    }
    let t = &store[r.offset as usize..r.offset as usize + 16];
    let t_tag = u32::from_be_bytes([t[0], t[1], t[2], t[3]]);
    let t_typ = u32::from_be_bytes([t[4], t[5], t[6], t[7]]);
    let t_off = i32::from_be_bytes([t[8], t[9], t[10], t[11]]);
    let t_cnt = u32::from_be_bytes([t[12], t[13], t[14], t[15]]);
    if t_tag != region_tag || t_typ != T_BIN || t_cnt != 16 {
        return Err(e(format!("region trailer is (tag {t_tag}, type {t_typ}, count {t_cnt})")));
    }
    if t_off as i64 != -(h.il as i64 * 16) {
        return Err(e(format!("region trailer offset {} does not point back over exactly all {} entries", t_off, h.il)));
    }
    // remaining entries
    let mut prev_tag: Option<u32> = None;
    let mut prev_end: i64 = 0;
    for (i, en) in h.entries.iter().enumerate().skip(1) {
        if en.tag < 100 {
            return Err(e(format!("entry {i}: tag {} < 100 outside the region slot", en.tag)));
        }
        if let Some(p) = prev_tag {
            if en.tag <= p {
                return Err(e(format!("entry {i}: tag {} after tag {} (not strictly ascending)", en.tag, p)));
            }
        }
        prev_tag = Some(en.tag);
        if !(1..=9).contains(&en.typ) {
            return Err(e(format!("entry {i} (tag {}): illegal type {}", en.tag, en.typ)));
        }
        if en.offset < 0 || en.offset as i64 > dl {
            return Err(e(format!("entry {i} (tag {}): offset {} out of range", en.tag, en.offset)));
        }
        if en.offset % type_align(en.typ) != 0 {
            return Err(e(format!("entry {i} (tag {}): offset {} not aligned for type {}", en.tag, en.offset, en.typ)));
        }
        if en.count == 0 {
            return Err(e(format!("entry {i} (tag {}): count 0", en.tag)));
        }
        let len = data_length(store, en).ok_or_else(|| e(format!("entry {i} (tag {}): data runs past the store or a string is unterminated", en.tag)))? as i64;
        if len <= 0 {
            return Err(e(format!("entry {i} (tag {}): zero length", en.tag)));
        }
        let end = en.offset as i64 + len;
        if end > dl - 16 {
            return Err(e(format!("entry {i} (tag {}): data [{}..{}) overlaps the region trailer / exceeds dl {}", en.tag, en.offset, end, dl)));
        }
        if (en.offset as i64) < prev_end {
            return Err(e(format!("entry {i} (tag {}): offset {} overlaps the previous entry ending at {}", en.tag, en.offset, prev_end)));
        }
        prev_end = end;
    }
    Ok(())
}

/// all structural rules on a complete package; returns the segments on success
pub fn validate_package(bytes: &[u8]) -> Result<Segments, String> {
    validate_lead(bytes)?;
    let seg = decode(bytes)?;
    validate_header(bytes, &seg.sig, TAG_HEADERSIGNATURES, "signature header")?;
    if bytes[seg.pad_start..seg.hdr.start].iter().any(|b| *b != 0) {
        return Err("signature header padding is not zero".into());
    }
    if seg.hdr.start % 8 != 0 {
        return Err(format!("main header starts at offset {} which is not 8-aligned", seg.hdr.start));
    }
    validate_header(bytes, &seg.hdr, TAG_HEADERIMMUTABLE, "main header")?;
    Ok(seg)
}
