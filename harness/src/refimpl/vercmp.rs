//! R6: byte-level transliteration of rpm's rpmvercmp() (lib/rpmvercmp.c, rpm >= 4.15 with caret
//! support) and of the EVR comparison stated in C13 (epoch "" == "0", then version, then
//! release, each with rpmvercmp).

use std::cmp::Ordering;

fn risdigit(c: u8) -> bool {
    c.is_ascii_digit()
}
fn risalpha(c: u8) -> bool {
    c.is_ascii_alphabetic()
}
fn risalnum(c: u8) -> bool {
    risdigit(c) || risalpha(c)
}

/// `*p` of the C code: 0 at the end of the string
fn at(s: &[u8], i: usize) -> u8 {
    s.get(i).copied().unwrap_or(0)
}

pub fn rpmvercmp(a: &[u8], b: &[u8]) -> i32 {
    if a == b {
        return 0;
    }
    let (mut one, mut two) = (0usize, 0usize);
    while at(a, one) != 0 || at(b, two) != 0 {
        while at(a, one) != 0 && !risalnum(at(a, one)) && at(a, one) != b'~' && at(a, one) != b'^' {
            one += 1;
        }
        while at(b, two) != 0 && !risalnum(at(b, two)) && at(b, two) != b'~' && at(b, two) != b'^' {
            two += 1;
        }
        if at(a, one) == b'~' || at(b, two) == b'~' {
            if at(a, one) != b'~' {
                return 1;
            }
            if at(b, two) != b'~' {
                return -1;
            }
            one += 1;
            two += 1;
            continue;
        }
        if at(a, one) == b'^' || at(b, two) == b'^' {
            if at(a, one) == 0 {
                return -1;
            }
            if at(b, two) == 0 {
                return 1;
            }
            if at(a, one) != b'^' {
                return 1;
            }
            if at(b, two) != b'^' {
                return -1;
            }
            one += 1;
            two += 1;
            continue;
        }
        if !(at(a, one) != 0 && at(b, two) != 0) {
            break;
        }
        let (mut s1, mut s2) = (one, two);
        let isnum;
        if risdigit(at(a, s1)) {
            while at(a, s1) != 0 && risdigit(at(a, s1)) {
                s1 += 1;
            }
            while at(b, s2) != 0 && risdigit(at(b, s2)) {
                s2 += 1;
            }
            isnum = true;
        } else {
            while at(a, s1) != 0 && risalpha(at(a, s1)) {
                s1 += 1;
            }
            while at(b, s2) != 0 && risalpha(at(b, s2)) {
                s2 += 1;
            }
            isnum = false;
        }
        if one == s1 {
            return -1;
        }
        if two == s2 {
            return if isnum { 1 } else { -1 };
        }
        let mut seg1 = &a[one..s1];
        let mut seg2 = &b[two..s2];
        if isnum {
            while seg1.first() == Some(&b'0') {
                seg1 = &seg1[1..];
            }
            while seg2.first() == Some(&b'0') {
                seg2 = &seg2[1..];
            }
            if seg1.len() > seg2.len() {
                return 1;
            }
            if seg2.len() > seg1.len() {
                return -1;
            }
        }
        match seg1.cmp(seg2) {
            Ordering::Less => return -1,
            Ordering::Greater => return 1,
            Ordering::Equal => {}
        }
        one = s1;
        two = s2;
    }
    if at(a, one) == 0 && at(b, two) == 0 {
        return 0;
    }
    if at(a, one) == 0 {
        -1
    } else {
        1
    }
}

pub fn ord(v: i32) -> Ordering {
    v.cmp(&0)
}

pub fn vercmp(a: &str, b: &str) -> Ordering {
    ord(rpmvercmp(a.as_bytes(), b.as_bytes()))
}

pub fn evr_cmp(a: (&str, &str, &str), b: (&str, &str, &str)) -> Ordering {
    let e1 = if a.0.is_empty() { "0" } else { a.0 };
    let e2 = if b.0.is_empty() { "0" } else { b.0 };
    vercmp(e1, e2).then_with(|| vercmp(a.1, b.1)).then_with(|| vercmp(a.2, b.2))
}
