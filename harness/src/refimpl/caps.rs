//! R7: acceptor for the capability-text grammar stated in C19, three-valued.

/// capability names from linux/capability.h (written out, not imported)
pub const CAP_NAMES: [&str; 41] = [
    "cap_chown", "cap_dac_override", "cap_dac_read_search", "cap_fowner", "cap_fsetid", "cap_kill",
    "cap_setgid", "cap_setuid", "cap_setpcap", "cap_linux_immutable", "cap_net_bind_service",
    "cap_net_broadcast", "cap_net_admin", "cap_net_raw", "cap_ipc_lock", "cap_ipc_owner",
    "cap_sys_module", "cap_sys_rawio", "cap_sys_chroot", "cap_sys_ptrace", "cap_sys_pacct",
    "cap_sys_admin", "cap_sys_boot", "cap_sys_nice", "cap_sys_resource", "cap_sys_time",
    "cap_sys_tty_config", "cap_mknod", "cap_lease", "cap_audit_write", "cap_audit_control",
    "cap_setfcap", "cap_mac_override", "cap_mac_admin", "cap_syslog", "cap_wake_alarm",
    "cap_block_suspend", "cap_audit_read", "cap_perfmon", "cap_bpf", "cap_checkpoint_restore",
];

#[derive(Clone, Copy, Debug, PartialEq, Eq)]
pub enum Verdict {
    Accept,
    Reject,
    /// the statement does not settle it
    Unspecified,
}

fn is_op(c: char) -> bool {
    matches!(c, '=' | '+' | '-')
}

fn clause(c: &str) -> Verdict {
    let Some(opi) = c.find(is_op) else { return Verdict::Reject };
    let (names, suffix) = c.split_at(opi);
    let mut unspecified = false;
    if names.is_empty() {
        if !c.starts_with('=') {
            return Verdict::Reject;
        }
    } else {
        let parts: Vec<&str> = names.split(',').collect();
        for p in &parts {
            let lower = p.to_ascii_lowercase();
            if lower == "all" {
                if parts.len() > 1 {
                    unspecified = true; // 'all' inside a multi-name list
                }
            } else if !p.is_ascii() {
                unspecified = true; // case-insensitivity of non-ASCII letters is not settled
            } else if !CAP_NAMES.contains(&lower.as_str()) {
                return Verdict::Reject;
            }
        }
    }
    // suffix: (op flag*)+ with no two operators adjacent
    let chars: Vec<char> = suffix.chars().collect();
    for (i, ch) in chars.iter().enumerate() {
        if is_op(*ch) {
            if i + 1 < chars.len() && is_op(chars[i + 1]) {
                return Verdict::Reject;
            }
            if i + 1 == chars.len() {
                unspecified = true; // bare trailing operator ("cap_chown=", "=")
            }
        } else if !matches!(ch, 'e' | 'i' | 'p') {
            return Verdict::Reject;
        }
    }
    if unspecified {
        Verdict::Unspecified
    } else {
        Verdict::Accept
    }
}

pub fn judge(text: &str) -> Verdict {
    let clauses: Vec<&str> = text.split_whitespace().collect();
    if clauses.is_empty() {
        return Verdict::Unspecified; // an empty list of clauses: not settled by the statement
    }
    let mut any_unspec = text.starts_with(char::is_whitespace) || text.ends_with(char::is_whitespace);
    for c in clauses {
        match clause(c) {
            Verdict::Reject => return Verdict::Reject,
            Verdict::Unspecified => any_unspec = true,
            Verdict::Accept => {}
        }
    }
    if any_unspec {
        Verdict::Unspecified
    } else {
        Verdict::Accept
    }
}
