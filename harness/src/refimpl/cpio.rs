//! R4: independent reader/writer for the SVR4 "newc" cpio format and rpm's stripped variant
//! (magic 07070X + 8 hex digits of header file index, padded to 4; data padded to 4).

use crate::engine::hexser;
use serde::{Deserialize, Serialize};

pub const TRAILER: &str = "TRAILER!!!";

#[derive(Serialize, Deserialize, Clone, Debug, PartialEq)]
pub struct CpioSpec {
    /// 6 magic bytes ("070701", "070702", "07070X", or garbage)
    #[serde(with = "hexser")]
    pub magic: Vec<u8>,
    /// name without NUL (newc only)
    #[serde(with = "hexser")]
    pub name: Vec<u8>,
    pub ino: u32,
    pub mode: u32,
    pub nlink: u32,
    pub mtime: u32,
    #[serde(with = "hexser")]
    pub data: Vec<u8>,
    /// raw replacement of the 8-character c_filesize field
    pub size_field: Option<String>,
    /// raw replacement of the 8-character c_namesize field
    pub namesize_field: Option<String>,
    /// stripped entries: the 8-character index field
    pub index_field: Option<String>,
    pub name_nul: bool,
    pub pad_header: bool,
    pub pad_data: bool,
}

impl CpioSpec {
    pub fn newc(name: &str, mode: u32, ino: u32, data: Vec<u8>) -> Self {
        CpioSpec {
            magic: b"070701".to_vec(),
            name: name.as_bytes().to_vec(),
            ino,
            mode,
            nlink: 1,
            mtime: 0,
            data,
            size_field: None,
            namesize_field: None,
            index_field: None,
            name_nul: true,
            pad_header: true,
            pad_data: true,
        }
    }
    pub fn stripped(index: u32, data: Vec<u8>) -> Self {
        CpioSpec {
            magic: b"07070X".to_vec(),
            index_field: Some(format!("{:08x}", index)),
            ..CpioSpec::newc("", 0, 0, data)
        }
    }
    pub fn trailer() -> Self {
        CpioSpec::newc(TRAILER, 0, 0, vec![])
    }
    pub fn write(&self, out: &mut Vec<u8>) {
        let start = out.len();
        out.extend_from_slice(&self.magic);
        if self.magic == b"07070X" {
            out.extend_from_slice(self.index_field.clone().unwrap_or_else(|| "00000000".into()).as_bytes());
        } else {
            let namesize = self.name.len() + usize::from(self.name_nul);
            let f = |v: u32| format!("{:08x}", v);
            out.extend_from_slice(f(self.ino).as_bytes());
            out.extend_from_slice(f(self.mode).as_bytes());
            out.extend_from_slice(f(0).as_bytes()); // uid
            out.extend_from_slice(f(0).as_bytes()); // gid
            out.extend_from_slice(f(self.nlink).as_bytes());
            out.extend_from_slice(f(self.mtime).as_bytes());
            out.extend_from_slice(self.size_field.clone().unwrap_or_else(|| f(self.data.len() as u32)).as_bytes());
            out.extend_from_slice(f(0).as_bytes()); // devmajor
            out.extend_from_slice(f(0).as_bytes()); // devminor
            out.extend_from_slice(f(0).as_bytes()); // rdevmajor
            out.extend_from_slice(f(0).as_bytes()); // rdevminor
            out.extend_from_slice(self.namesize_field.clone().unwrap_or_else(|| f(namesize as u32)).as_bytes());
            out.extend_from_slice(f(0).as_bytes()); // check
            out.extend_from_slice(&self.name);
            if self.name_nul {
                out.push(0);
            }
        }
        if self.pad_header {
            while (out.len() - start) % 4 != 0 {
                out.push(0);
            }
        }
        let dstart = out.len();
        out.extend_from_slice(&self.data);
        if self.pad_data {
            while (out.len() - dstart) % 4 != 0 {
                out.push(0);
            }
        }
    }
}

pub fn write_archive(entries: &[CpioSpec]) -> Vec<u8> {
    let mut out = Vec::new();
    for e in entries {
        e.write(&mut out);
    }
    out
}

#[derive(Clone, Debug, PartialEq)]
pub struct ParsedEntry {
    pub stripped_index: Option<u32>,
    pub name: Vec<u8>,
    pub mode: u32,
    pub ino: u32,
    pub nlink: u32,
    pub filesize: u64,
    pub data: Vec<u8>,
    /// c_mtime of a newc entry (0 for stripped entries, which carry none)
    pub mtime: u32,
}

fn hex8(b: &[u8]) -> Result<u32, String> {
    let s = std::str::from_utf8(b).map_err(|_| "non-ascii hex field".to_string())?;
    if !s.bytes().all(|c| c.is_ascii_hexdigit()) {
        return Err(format!("bad hex field {:?}", s));
    }
    u32::from_str_radix(s, 16).map_err(|e| e.to_string())
}

/// Strict parse of a whole archive. `sizes` gives the data length of stripped entries by
/// header file index. Returns the entries before the trailer and the number of bytes left
/// after the trailer (which rpm permits to be padding only).
pub fn parse_archive(b: &[u8], sizes: &[u64]) -> Result<(Vec<ParsedEntry>, usize), String> {
    let mut at = 0usize;
    let mut out = Vec::new();
    loop {
        if at % 4 != 0 {
            return Err(format!("entry at unaligned offset {at}"));
        }
        let magic = b.get(at..at + 6).ok_or_else(|| format!("archive ends without trailer at offset {at}"))?;
        if magic == b"07070X" {
            let idx = hex8(b.get(at + 6..at + 14).ok_or("truncated stripped header")?)?;
            let mut d = at + 14;
            d += (4 - d % 4) % 4;
            let size = *sizes.get(idx as usize).ok_or_else(|| format!("stripped entry names file index {idx} of {}", sizes.len()))? as usize;
            let data = b.get(d..d + size).ok_or("stripped entry data truncated")?.to_vec();
            let mut e = d + size;
            let pad = (4 - e % 4) % 4;
            if b.len() < e + pad {
                return Err("missing data padding after stripped entry".into());
            }
            if b[e..e + pad].iter().any(|x| *x != 0) {
                return Err(format!("non-zero data padding after stripped entry {idx}"));
            }
            e += pad;
            out.push(ParsedEntry { stripped_index: Some(idx), name: vec![], mode: 0, ino: 0, nlink: 0, filesize: size as u64, data, mtime: 0 });
            at = e;
            continue;
        }
        if magic != b"070701" && magic != b"070702" {
            return Err(format!("bad magic {:?} at offset {at}", String::from_utf8_lossy(magic)));
        }
        let h = b.get(at..at + 110).ok_or("truncated newc header")?;
        let field = |i: usize| hex8(&h[6 + 8 * i..14 + 8 * i]);
        let ino = field(0)?;
        let mode = field(1)?;
        let nlink = field(4)?;
        let filesize = field(6)? as usize;
        let namesize = field(11)? as usize;
        if namesize == 0 {
            return Err("namesize 0".into());
        }
        let nstart = at + 110;
        let name = b.get(nstart..nstart + namesize).ok_or("truncated name")?;
        if name[namesize - 1] != 0 {
            return Err("name not NUL terminated".into());
        }
        let name = name[..namesize - 1].to_vec();
        let mut d = nstart + namesize;
        let hp = (4 - d % 4) % 4;
        if b.get(d..d + hp).map(|p| p.iter().any(|x| *x != 0)).unwrap_or(true) {
            return Err("missing/non-zero header padding".into());
        }
        d += hp;
        let data = b.get(d..d + filesize).ok_or("data truncated")?.to_vec();
        let mut e = d + filesize;
        let pad = (4 - e % 4) % 4;
        if b.get(e..e + pad).map(|p| p.iter().any(|x| *x != 0)).unwrap_or(true) {
            return Err(format!("missing/non-zero data padding after {:?}", String::from_utf8_lossy(&name)));
        }
        e += pad;
        at = e;
        if name == TRAILER.as_bytes() {
            if filesize != 0 {
                return Err("trailer with data".into());
            }
            return Ok((out, b.len() - at));
        }
        out.push(ParsedEntry { stripped_index: None, name, mode, ino, nlink, filesize: filesize as u64, data, mtime: field(5)? });
    }
}
