//! vcheck: property-based verification harness for rpm-rs/rpm (library part, shared with the
//! libFuzzer targets under /verif/fuzz).
pub mod engine;
pub mod fuzz_entry;
pub mod gen;
pub mod props;
pub mod refimpl;
