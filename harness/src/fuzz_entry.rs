//! Entry points of the libFuzzer targets: the same oracles as the generated search, compiled
//! into the target. A violation aborts the process so that libFuzzer saves the input.

use crate::engine::{panics, Outcome, Property, Tier};
use crate::props::common::PkgCase;

fn report(prop: &str, o: &Outcome) {
    if let Some(f) = &o.fail {
        eprintln!("FUZZ-VIOLATION property={} clause={} detail={}", prop, f.clause, f.detail);
        std::process::abort();
    }
}

/// fz_read: raw bytes = package; C04 sweep (rpm's own entry points) + C01 round trip + C16 offsets
pub fn read(data: &[u8]) {
    panics::install_hook();
    let mut o = Outcome::new();
    if let Err((clause, detail)) = crate::props::c04::sweep(data) {
        o.fail(&clause, detail);
    }
    report("C04", &o);
    let case = PkgCase::Bytes(data.to_vec());
    report("C01", &crate::props::c01::C01.check(&case.clone()));
    report("C16", &crate::props::c16::C16.check(&crate::props::c16::C16Case::Pkg(case)));
}

/// fz_vercmp: two strings separated by the first newline
pub fn vercmp(data: &[u8]) {
    panics::install_hook();
    let Ok(s) = std::str::from_utf8(data) else { return };
    let (a, b) = s.split_once('\n').unwrap_or((s, ""));
    // (building the property value enumerates its bounded string sets: once, not per input)
    static P: std::sync::OnceLock<crate::props::c13::C13> = std::sync::OnceLock::new();
    let p = P.get_or_init(|| crate::props::c13::C13::new(Tier::Quick));
    report("C13", &p.check(&crate::props::c13::C13Case::Pair(a.to_string(), b.to_string())));
}

/// fz_caps: one capability text
pub fn caps(data: &[u8]) {
    panics::install_hook();
    let Ok(s) = std::str::from_utf8(data) else { return };
    report("C19", &crate::props::c19::C19.check(&crate::props::c19::C19Case(s.to_string())));
}

/// fz_nevra: arbitrary text for the no-panic part, and a component tuple decoded from the bytes
pub fn nevra(data: &[u8]) {
    panics::install_hook();
    use crate::props::c15::{C15Case, C15};
    let Ok(s) = std::str::from_utf8(data) else { return };
    report("C15", &C15.check(&C15Case::Arbitrary(s.to_string())));
    // five newline-separated fields, filtered to the documented character sets
    let f: Vec<&str> = s.split('\n').collect();
    if f.len() >= 5 {
        let keep = |x: &str, extra: &str| -> String { x.chars().filter(|c| c.is_ascii_alphanumeric() || extra.contains(*c)).collect() };
        let name = keep(f[0], "+._-");
        let epoch: String = f[1].chars().filter(|c| c.is_ascii_digit()).take(6).collect();
        let version = keep(f[2], "._+~^");
        let release = keep(f[3], "._+~^");
        let arch = keep(f[4], "_");
        if name.starts_with(|c: char| c.is_ascii_alphanumeric()) && !version.is_empty() && !release.is_empty() && !arch.is_empty() {
            report("C15", &C15.check(&C15Case::Nevra { name, epoch, version, release, arch }));
        }
    }
}

/// fz_cpio: bytes = a cpio archive wrapped into a compressor-less package with a fixed file table
pub fn cpio(data: &[u8]) {
    panics::install_hook();
    use crate::gen::filepkg::{self, ModelFile};
    let mk = |dir: &str, base: &str, content: &[u8]| ModelFile { dir: dir.into(), base: base.into(), mode: 0o100644, mtime: 1, flags: 0, user: "root".into(), group: "root".into(), linkto: String::new(), content: content.to_vec() };
    let files = vec![mk("/", "a", b"hello"), mk("/usr/", "b", b""), mk("/usr/", "c", b"0123456789abcdef")];
    let long = data.first().map(|b| b & 1 == 1).unwrap_or(false);
    let mut main = filepkg::basic_entries("fz");
    main.extend(filepkg::file_entries(&files, long));
    let bytes = filepkg::wrap(main, data.get(1..).unwrap_or(&[]).to_vec(), true).encode();
    let mut o = Outcome::new();
    if let Err((clause, detail)) = crate::props::c04::sweep(&bytes) {
        o.fail(&clause, detail);
    }
    report("C04", &o);
}
