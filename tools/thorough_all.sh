#!/bin/bash
# runs every thorough tier once, prints verdict + wall time per property
cd /verif
for i in ${*:-01 02 03 04 05 06 07 08 09 10 11 12 13 14 15 16 17 18 19 20}; do
  s=$(date +%s)
  out=$(./check C$i thorough 2>&1); code=$?
  e=$(date +%s)
  echo "C$i exit=$code wall=$((e-s))s $(echo "$out" | grep -E '^(OK|VIOLATION|INCONCLUSIVE|violated)' | cut -c1-250 | tr '\n' ' ')"
done
