#!/bin/bash
# usage: with_repo_variant.sh <patch-or-"revert:<commit>"> <Cxx> [tier]
# Applies a change to /repo's working tree, runs one check, and restores the tree.
# Never leaves /repo dirty (git checkout -- . && git clean on src).
set -u
what="$1"; id="$2"; tier="${3:-quick}"
cd /repo
if [ -n "$(git status --porcelain --untracked-files=no)" ]; then echo "repo dirty, refusing"; exit 3; fi
restore() { git -C /repo checkout -q -- . ; }
trap restore EXIT
case "$what" in
  revert:*) c="${what#revert:}"; if ! git show "$c" | git apply -R --whitespace=nowarn 2>/tmp/apply.err; then echo "APPLY-FAILED $(head -1 /tmp/apply.err)"; exit 4; fi ;;
  *) if ! git apply --whitespace=nowarn "$what" 2>/tmp/apply.err; then echo "APPLY-FAILED $(head -1 /tmp/apply.err)"; exit 4; fi ;;
esac
cd /verif
out=$(./check "$id" "$tier" 2>&1); code=$?
echo "$out" | grep -E "^(VIOLATION|INCONCLUSIVE|OK |violated|KNOWN)" | cut -c1-300
echo "exit=$code"
exit $code
