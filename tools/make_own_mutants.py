#!/usr/bin/env python3
"""Generates the harness author's own sensitivity mutants (DESIGN section 4 'Mutants') as patch
files under seeded/own/. Each is a one-line semantic change made by exact string replacement in a
scratch copy of the file; `git diff` produces the patch. Run with a clean /repo."""
import subprocess, os, json, sys
M = [
 # name, property, file, old, new
 ("c01-swap-offset-count","C01","src/rpm/headers/header.rs","        out.write_all(&self.offset.to_be_bytes())?;\n        out.write_all(&self.num_items.to_be_bytes())?;","        out.write_all(&self.num_items.to_be_bytes())?;\n        out.write_all(&(self.offset as u32).to_be_bytes())?;"),
 ("c01-lead-os-twice","C01","src/rpm/headers/lead.rs","        out.write_all(&self.signature_type.to_be_bytes())?;","        out.write_all(&self.os.to_be_bytes())?;"),
 ("c01-drop-sig-padding","C01","src/rpm/headers/header.rs","        let padding_needed = self.padding_required();\n        if padding_needed > 0 {","        let padding_needed = self.padding_required();\n        if padding_needed > 4 {"),
 ("c02-skip-digests","C02","src/rpm/package.rs","        self.metadata.header.write(&mut header_bytes)?;\n        self.verify_digests()?;","        self.metadata.header.write(&mut header_bytes)?;"),
 ("c02-pgp-tag-header-only","C02","src/rpm/package.rs","                verifier.verify(header_and_content_cursor, signature_header_and_content)?;","                let _ = header_and_content_cursor;\n                verifier.verify(header_bytes.as_slice(), signature_header_and_content)?;"),
 ("c02-ignore-dsa-result","C02","src/rpm/package.rs","                verifier.verify(header_bytes.as_slice(), signature_header_only)?;\n            }\n\n            if let Ok(signature_header_only) = rsa_sig {","                let _ = verifier.verify(header_bytes.as_slice(), signature_header_only);\n            }\n\n            if let Ok(signature_header_only) = rsa_sig {"),
 ("c03-skip-sha1","C03","src/rpm/package.rs","            if sha1_declared != header_digest_sha1 {","            if false && sha1_declared != header_digest_sha1 {"),
 ("c03-md5-order","C03","src/rpm/package.rs","                hasher.update(&header);\n                hasher.update(&self.content);","                hasher.update(&self.content);\n                hasher.update(&header);"),
 ("c03-payload-digest-of-header","C03","src/rpm/package.rs","                hasher.update(self.content.as_slice());\n                hex::encode(hasher.finalize())","                hasher.update(header.as_slice());\n                hex::encode(hasher.finalize())"),
 ("c04-name-len-check-dropped","C04","src/rpm/payload.rs","                if name_len > 4096 {","                if name_len > 0x4000_0000 {"),
 ("c04-binary-get-unchecked","C04","src/rpm/headers/header.rs","    let bin_bytes = input.get(..num_items as usize).ok_or_else(|| {\n        Error::Nom(format!(\n            \"Insufficient bytes for IndexData::{} entry\",\n            bin_type\n        ))\n    })?;","    let _ = bin_type;\n    let bin_bytes = &input[..num_items as usize];"),
 ("c05-u32-last","C05","src/rpm/headers/header.rs","            IndexData::Int32(s) => s.first().copied(),","            IndexData::Int32(s) => s.last().copied(),"),
 ("c05-dirindex-plus-one","C05","src/rpm/package.rs","                            if let Some(dir) = dirs.get(dir_index as usize) {","                            if let Some(dir) = dirs.get(dir_index as usize + usize::from(dir_index > 1)) {"),
 ("c05-le-u16","C05","src/rpm/headers/header.rs","                    parse_entry_data_number(remaining, entry.num_items, ints, be_u16)?;","                    parse_entry_data_number(remaining, entry.num_items, ints, nom::number::complete::le_u16)?;"),
 ("c06-swap-vendor-url","C06","src/rpm/builder.rs","                IndexTag::RPMTAG_VENDOR,\n                offset,\n                IndexData::StringTag(vendor),","                IndexTag::RPMTAG_URL,\n                offset,\n                IndexData::StringTag(vendor),"),
 ("c06-group-into-username","C06","src/rpm/builder.rs","            file_usernames.push(entry.user.to_owned());","            file_usernames.push(entry.group.to_owned());"),
 ("c06-clamp-wrong-way","C06","src/rpm/builder.rs","                Some(d) if d < entry.modified_at => d,","                Some(d) if d > entry.modified_at => d,"),
 ("c07-pad-mod8","C07","src/rpm/payload.rs","    let overhang = len % 4;\n    if overhang != 0 {\n        let repeat = 4 - overhang;","    let overhang = len % 8;\n    if overhang != 0 {\n        let repeat = 8 - overhang;"),
 ("c08-digest-before-finish","C08","src/rpm/builder.rs","        let raw_archive_digest_sha256 = hex::encode(archive.into_digest());\n        let payload = compressor.finish_compression()?;","        let raw_archive_digest_sha256 = hex::encode(archive.into_digest());\n        let payload = compressor.finish_compression()?;\n        let raw_archive_digest_sha256 = if payload.len() % 7 == 0 { hex::encode(sha2::Sha256::digest(&payload)) } else { raw_archive_digest_sha256 };"),
 ("c09-no-sort","C09","src/rpm/headers/header.rs","        actual_records.sort_by(|e1, e2| e1.tag.cmp(&e2.tag));","        if actual_records.len() < 40 { actual_records.sort_by(|e1, e2| e1.tag.cmp(&e2.tag)); }"),
 ("c09-int32-align2","C09","src/rpm/headers/header.rs","                while store.len() % 4 > 0 {","                while store.len() % 2 > 0 {"),
 ("c09-region-offset","C09","src/rpm/headers/header.rs","            (records_count + 1) * -(INDEX_ENTRY_SIZE as i32),","            records_count * -(INDEX_ENTRY_SIZE as i32),"),
 ("c10-clear-keeps-openpgp","C10","src/rpm/package.rs","        let sig_header_builder =\n            SignatureHeaderBuilder::new().set_sha256_digest(&header_digest_sha256);\n        self.metadata.signature = sig_header_builder.build()?;","        let sig_header_builder =\n            SignatureHeaderBuilder::new().set_sha256_digest(&header_digest_sha256);\n        let old = self.metadata.signature.get_entry_data_as_string_array(IndexSignatureTag::RPMSIGTAG_OPENPGP).ok().and_then(|v| v.first().cloned());\n        let sig_header_builder = match old.and_then(|s| crate::decode_sig(&s).ok()) { Some(raw) if raw.len() % 2 == 0 => sig_header_builder.add_openpgp_signature(raw), _ => sig_header_builder };\n        self.metadata.signature = sig_header_builder.build()?;"),
 ("c11-buildtime-now","C11","src/rpm/builder.rs","            Some(t) if t < now => t,\n            _ => now,\n        };\n        actual_records.push(IndexEntry::new(\n            IndexTag::RPMTAG_BUILDTIME,","            Some(t) if t < now && t.0 % 16 != 0 => t,\n            _ => now,\n        };\n        actual_records.push(IndexEntry::new(\n            IndexTag::RPMTAG_BUILDTIME,"),
 ("c13-tilde-caret-swapped","C13","src/version.rs","            (Some(_), None) => match version2_part.is_empty() {\n                true => return Ordering::Greater,\n                false => return Ordering::Less,\n            },","            (Some(_), None) => match version2_part.is_empty() {\n                true => return Ordering::Greater,\n                false => return Ordering::Greater,\n            },"),
 ("c13-no-zero-trim","C13","src/version.rs","                    let prefix2 = prefix2.trim_start_matches('0');","                    let prefix2 = if prefix2.len() > 3 { prefix2 } else { prefix2.trim_start_matches('0') };"),
 ("c14-store-write-not-all","C14","src/rpm/headers/header.rs","        out.write_all(&self.store)?;\n        Ok(())","        let n = out.write(&self.store)?;\n        if n < self.store.len() { out.write_all(&self.store[n..n + (self.store.len() - n) / 2 * 2])?; }\n        Ok(())"),
 ("c15-arch-split-first-dot","C15","src/version.rs","        let (release, arch) = ra.rsplit_once('.').unwrap_or((ra, \"\"));","        let (release, arch) = ra.split_once('.').unwrap_or((ra, \"\"));"),
 ("c16-entry-size-12","C16","src/rpm/package.rs","        let header_start = sig_header_start + sig_header_size + padding;","        let header_start = sig_header_start + sig_header_size + padding - (self.signature.index_header.num_entries / 9);"),
 ("c18-perm-mask","C18","src/rpm/headers/types.rs","const PERMISSIONS_BIT_MASK: u16 = 0o7777;","const PERMISSIONS_BIT_MASK: u16 = 0o3777;"),
 ("c19-flag-x-allowed","C19","src/rpm/filecaps.rs","            'p' | 'i' | 'e' => debug_assert!(last_ch.is_some()),","            'p' | 'i' | 'e' | 'x' => debug_assert!(last_ch.is_some()),"),
 ("c20-chrono-lt-instead-of-le","C20","src/rpm/timestamp.rs","        if t < 0 {\n            return Err(TimestampError::Underflow);\n        }","        if t < -1 {\n            return Err(TimestampError::Underflow);\n        }\n        let t = t.max(0);"),
]
out='/verif/seeded/own'
os.makedirs(out, exist_ok=True)
assert subprocess.run(['git','-C','/repo','status','--porcelain','--untracked-files=no'],capture_output=True,text=True).stdout=='', 'repo dirty'
index=[]
for name,prop,f,old,new in M:
    p='/repo/'+f
    s=open(p).read()
    if s.count(old)!=1:
        print('SKIP (pattern count %d): %s'%(s.count(old),name)); continue
    open(p,'w').write(s.replace(old,new))
    d=subprocess.run(['git','-C','/repo','diff','--',f],capture_output=True,text=True).stdout
    subprocess.run(['git','-C','/repo','checkout','-q','--',f])
    open(f'{out}/{name}.diff','w').write(d)
    index.append({'name':name,'property':prop,'file':f})
json.dump(index,open(f'{out}/index.json','w'),indent=1)
print(len(index),'mutants written')
