#!/usr/bin/env python3
"""Regenerates the findings and seeded-change tables inside DESIGN.md from known_findings.json
and seeded/*/meta.json."""
import json, os, re
ROOT='/verif'
kf=json.load(open(f'{ROOT}/known_findings.json'))
rows=["| id | property (check that found it) | what failed | status | commit | replay |","|----|----|----|----|----|----|"]
for r in kf:
    tag=r['what'].split()[0]
    what=r['what'][len(tag)+1:]
    rows.append(f"| {tag} | {r['property']} / clause `{r['clause']}` | {what} | {r['status']} | {r.get('commit') or '-'} | `{r.get('replay','')}` |")
findings="\n".join(rows)
srows=["| seed | property | needs, in order to manifest | caught by `./check <prop> quick` | first verdict / note |","|----|----|----|----|----|"]
for n in sorted(os.listdir(f'{ROOT}/seeded')):
    mp=f'{ROOT}/seeded/{n}/meta.json'
    if not os.path.exists(mp): continue
    m=json.load(open(mp))
    clause=next((l for l in m.get('check_result',[]) if l.startswith('violated')), '')
    clause=re.sub(r'detail=.*','',clause).replace('violated ','').strip()
    note='missed at first, check strengthened: '+m['history'].split(';')[0][:160] if 'history' in m else 'caught as built'
    if m.get('not_caught_reason'): note=m['not_caught_reason']
    srows.append(f"| {n} | {m['property']} | {m.get('needs_to_manifest','')} | {'yes ('+clause+')' if m.get('caught') else 'NO (see note)'} | {note} |")
seeds="\n".join(srows)
arows=["| property | level | phases (evaluations in the quick tier) | evaluations | distinct non-trivial | exhaustive sub-domains | replays | wall (s, 16 cores) |","|----|----|----|----|----|----|----|----|"]
for i in range(1,21):
    ep=f'{ROOT}/evidence/C{i:02d}.json'
    if not os.path.exists(ep): continue
    e=json.load(open(ep)); c=e['coverage']
    if e.get('tier')!='quick': continue
    ph=', '.join(f"{x['phase']} ({x['evaluations']})" for x in c['phases'])
    ex='; '.join(c.get('exhaustive_subdomains') or []) or '-'
    arows.append(f"| {e['property_id']} | {e['level']} | {ph} | {c['evaluations']} | {c['distinct_nontrivial']} | {ex} | {c['replayed']} | {e['wall_s']} |")
asbuilt="\n".join(arows)
p=f'{ROOT}/DESIGN.md'
s=open(p).read()
s=re.sub(r'<!-- BEGIN:findings -->.*?<!-- END:findings -->', lambda m: '<!-- BEGIN:findings -->\n'+findings+'\n<!-- END:findings -->', s, flags=re.S)
s=re.sub(r'<!-- BEGIN:seeds -->.*?<!-- END:seeds -->', lambda m: '<!-- BEGIN:seeds -->\n'+seeds+'\n<!-- END:seeds -->', s, flags=re.S)
s=re.sub(r'<!-- BEGIN:asbuilt -->.*?<!-- END:asbuilt -->', lambda m: '<!-- BEGIN:asbuilt -->\n'+asbuilt+'\n<!-- END:asbuilt -->', s, flags=re.S)
open(p,'w').write(s)
print('findings:',len(kf),'seeds:',len(srows)-2)
