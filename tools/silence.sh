#!/bin/bash
# runs every quick check for several seeds from fresh processes; prints anything that is not exit 0
cd /verif
seeds="${*:-1 2 3 4 5}"
bad=0
for s in $seeds; do
  for i in 01 02 03 04 05 06 07 08 09 10 11 12 13 14 15 16 17 18 19 20; do
    out=$(VERIF_SEED=$s ./check C$i quick 2>&1); code=$?
    if [ $code -ne 0 ]; then bad=$((bad+1)); echo "seed=$s C$i exit=$code"; echo "$out" | grep -E "violated|VIOLATION|INCONCLUSIVE" | cut -c1-400; fi
  done
  echo "seed $s done"
done
echo "non-zero exits: $bad"
