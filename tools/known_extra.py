KNOWN = [
 {
  "property": "C04", "status": "known", "clause": "alloc-single-pgp",
  "detail_contains": "inside the pgp crate's packet parser",
  "what": "K01 pgp 0.15's PacketParser allocates the declared body length of a packet (up to 1 GiB, zero-filled) before reading it: verify_signature with a pgp Verifier or signature_key_ids on a package whose signature blob declares a huge packet length requests memory far out of proportion to the input (defect inside the pgp dependency, reached through rpm::signature::pgp::Verifier::parse_signature)",
  "replay": "replays/C04/K01-pgp-packet-length-allocation.json",
 },
]
