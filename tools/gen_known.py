#!/usr/bin/env python3
"""Regenerates /verif/known_findings.json: 'fixed' rows are looked up in /repo's history by the
start of the commit subject; 'known' rows are written out verbatim."""
import json, subprocess, os
ROOT = os.path.dirname(os.path.dirname(os.path.abspath(__file__)))
def commit(subject_start):
    out = subprocess.run(["git", "-C", "/repo", "log", "--format=%h %s"], capture_output=True, text=True).stdout
    for l in out.splitlines():
        h, s = l.split(" ", 1)
        if s.startswith(subject_start):
            return h
    raise SystemExit("no commit: " + subject_start)
FIXED = [
 # property, clause, what, commit subject start, replay
 ("C01","write-differs","D01 header intro with a wrong third magic byte was accepted and rewritten as 0xe8","fix: compare all three magic bytes","replays/C01/D01-intro-magic3.json"),
 ("C04","panic","D03 index entry offset (negative or beyond the store) sliced the store unchecked: panic in Header::parse","fix: reject index entries whose offset","replays/C04/D03-entry-offset-out-of-range.json"),
 ("C04","alloc-single","D06 numeric entries reserved 'count' items up front (up to 32 GiB, abort)","fix: do not reserve memory from an untrusted item count","replays/C04/D06-count-driven-reservation.json"),
 ("C04","panic","D11 echo_signature indexed the first five bytes of a shorter signature (with a debug logger installed)","fix: echo_signature no longer indexes","replays/C04/D11-echo-signature-short.json"),
 ("C04","panic","D04 STRING_ARRAY entry without terminator: rest[1..] past the end of the store","fix: error instead of panic on an unterminated string array","replays/C04/D04-string-array-unterminated.json"),
 ("C04","panic","D07 accessors of i18n strings indexed item 0 of an empty array","fix: an i18n string entry with zero items","replays/C04/D07-empty-i18n-array.json"),
 ("C04","process-died","D05 i18n items after the first were empty and a large count looped without consuming input (unbounded allocation)","fix: skip the terminator between the items of an i18n","replays/C04/D05-i18n-count-runaway.json"),
 ("C04","process-died","D02 intro il/dl summed in u32 (overflow) and a buffer of that size (4 GiB) allocated before reading","fix: header size from the intro is computed without overflow","replays/C04/D02-intro-sizes-drive-allocation.json"),
 ("C04","panic","D10 unknown PAYLOADDIGESTALGO hit expect(); empty PAYLOADDIGEST array indexed","fix: unknown payload digest algorithm or empty digest tag","replays/C04/D10-unknown-payload-digest-algo.json"),
 ("C04","alloc-single","D12 cpio name buffer (up to 4 GiB) allocated before the 4096 length check","fix: check the cpio entry name length before allocating","replays/C04/D12-cpio-name-length.json"),
 ("C04","panic","D13 stripped-cpio file index used unchecked to index the file entry list","fix: reject stripped cpio entries whose file index","replays/C04/D13-stripped-index-out-of-range.json"),
 ("C06","scalar-packager","D16 packager, group and verify script were accepted by the builder and silently dropped","fix: the builder emits the packager, group and verify script","replays/C06/D16-packager-dropped.json"),
 ("C06","file-path","D17 files directly under '/' were recorded with dirname '//' and read back as '//name'","fix: files directly below the root directory","replays/C06/D17-root-level-file.json"),
 ("C07","iteration-error","D14 large-file (stripped) cpio: reader did not skip header alignment, writer did not pad data","fix: large-file (stripped) cpio entries are padded","replays/C07/D14-stripped-entries.json"),
 ("C07","pairing","D15 files() paired archive entries with header entries by position (wrong for %ghost / reordered archives)","fix: files() pairs each archive entry","replays/C07/D15-pairing-by-position.json"),
 ("C08","payload-digest-alt","D18 Sha256Writer hashed the whole buffer before a possibly short inner write: PAYLOADDIGESTALT wrong for large files","fix: Sha256Writer hashes only the bytes","replays/C08/D18-alt-digest-short-write.json"),
 ("C09","rpmlib-features","D19 rpmlib(PayloadIsXz) / rpmlib(PayloadIsBzip2) never declared","fix: declare rpmlib(PayloadIsXz)","replays/C09/D19-xz-feature-not-declared.json"),
 ("C11","not-reproducible","D21 user()/group() recommends emitted in HashSet iteration order","fix: user()/group() recommends are emitted in a deterministic order","replays/C11/D21-owner-recommends-order.json"),
 ("C15","compression-roundtrip","D24 CompressionType 'none' printed but not parsed","fix: CompressionType::from_str accepts","replays/C15/D24-none-not-parsed.json"),
 ("C15","nevra-roundtrip","D23 Nevra::parse split the name at the first '-'","fix: Nevra::parse splits the name off from the right","replays/C15/D23-name-with-dashes.json"),
 ("C19","accepts-malformed","D27 'clause starts with an operator' rule tested against the whole text ('=e +p' accepted, 'cap_chown+p =e' rejected)","fix: capability clauses starting with an operator","replays/C19/D27-operator-clause-after-equals.json"),
 ("C14","write-panic","D08 index entries written with Write::write and only debug-asserted: short-writing sinks got a truncated index (release) or a panic (debug)","fix: index entries are serialised with write_all","replays/C14/D08-index-entries-short-write.json"),
 ("C02","ok-without-verification","D09 OPENPGP signature tag with zero entries made verify_signature return Ok without consulting the verifier","fix: an OpenPGP signature tag with zero entries","replays/C02/D09-openpgp-zero-entries.json"),
 ("C10","key-id","D20 signature_key_ids tested the accumulated (empty) list and failed on every library-signed package","fix: signature_key_ids checks the issuer count","replays/C10/D20-key-ids-of-library-signed.json"),
 ("C17","panic","D25 destinations without a file name ('./', '/..', '/usr/..', './..') panicked in with_file","fix: destinations without a file name are rejected","replays/C17/D25-dest-dot-slash.json"),
 ("C17","unreadable-result","D28 destination with a trailing slash was archived under './a/' while the header recorded '/a' (archive name != header path)","fix: archive entry names are derived from the recorded directory","replays/C17/D28-trailing-slash-destination.json"),
 ("C17","panic","D26 out-of-range gzip/xz/bzip2 levels panicked inside the encoder constructors","fix: out-of-range gzip/xz/bzip2 compression levels","replays/C17/D26-compression-level-out-of-range.json"),
 ("C12","escaped-target","D22 extract(): '..' in directory/base names escaped the target, earlier symlinks were followed, special file types hit unreachable!()","fix: extract() stays inside the target directory","replays/C12/D22a-dotdot-dirname.json"),
]
exec(open(os.path.join(ROOT, "tools", "known_extra.py")).read())
rows = []
for prop, clause, what, subj, replay in FIXED:
    assert os.path.exists(os.path.join(ROOT, replay)), replay
    rows.append({"property": prop, "status": "fixed", "clause": clause, "what": what, "commit": commit(subj), "replay": replay})
for k in KNOWN:
    assert os.path.exists(os.path.join(ROOT, k["replay"])), k["replay"]
    rows.append(k)
json.dump(rows, open(os.path.join(ROOT, "known_findings.json"), "w"), indent=1)
print(len(rows), "entries")
