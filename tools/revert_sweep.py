#!/usr/bin/env python3
"""Sensitivity sweep: revert each recorded fix commit (one at a time) in /repo's working tree and
confirm that the check of the property it belongs to reports a VIOLATION. Restores the tree."""
import json, subprocess, sys
rows = [r for r in json.load(open('/verif/known_findings.json')) if r['status'] == 'fixed']
only = set(sys.argv[1:])
res = []
for r in rows:
    tag = r['what'].split()[0]
    if only and tag not in only and r['property'] not in only:
        continue
    p = subprocess.run(['/verif/tools/with_repo_variant.sh', 'revert:' + r['commit'], r['property']], capture_output=True, text=True)
    line = [l for l in p.stdout.splitlines() if l.startswith(('VIOLATION', 'violated', 'APPLY', 'INCONCLUSIVE', 'OK'))]
    status = 'CAUGHT' if p.returncode == 1 else ('MISSED' if p.returncode == 0 else 'ERROR(%d)' % p.returncode)
    print(f"{tag:5} {r['property']} {r['commit']} {status}  {' | '.join(line)[:220]}", flush=True)
    res.append((tag, status))
bad = [t for t, s in res if s != 'CAUGHT']
print('not caught:', bad)
