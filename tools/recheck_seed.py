#!/usr/bin/env python3
"""Re-runs the quick check of stored seeds against the current harness and refreshes
check_result / caught in their meta.json (the confirmation fields are left alone).
usage: recheck_seed.py <seed-name>..."""
import json, subprocess, sys
for name in sys.argv[1:]:
    prop = name.split('-')[0]
    out = subprocess.run(['/verif/tools/with_repo_variant.sh', f'/verif/seeded/{name}/patch.diff', prop, 'quick'], capture_output=True, text=True).stdout
    lines = [l[:400] for l in out.splitlines() if l.startswith(('violated', 'VIOLATION', 'OK', 'INCONCLUSIVE', 'exit=', 'APPLY'))]
    mp = f'/verif/seeded/{name}/meta.json'
    m = json.load(open(mp))
    m['check_result'] = lines
    m['caught'] = 'exit=1' in lines
    json.dump(m, open(mp, 'w'), indent=1)
    print(name, lines[-1] if lines else '?', flush=True)
