#!/usr/bin/env python3
"""Applies each own mutant (seeded/own/*.diff) to /repo, checks that it still builds and passes the
pinned tests (first time only, cached in index.json), runs the owning property's quick check and
records the verdict. Restores the tree after each."""
import json, subprocess, sys, os
idx_p='/verif/seeded/own/index.json'
idx=json.load(open(idx_p))
only=set(sys.argv[1:])
for m in idx:
    if only and m['name'] not in only and m['property'] not in only: continue
    patch=f"/verif/seeded/own/{m['name']}.diff"
    if 'tests_pass' not in m:
        subprocess.run(['git','-C','/repo','apply',patch],check=True)
        t=subprocess.run('cd /repo && cargo test --workspace --no-fail-fast --offline 2>&1 | grep -E "^test result|error(\\[|:)" ',shell=True,capture_output=True,text=True).stdout
        subprocess.run(['git','-C','/repo','checkout','-q','--','.'])
        m['tests_pass']= ('FAILED' not in t) and ('error' not in t) and t.count('test result: ok')>=5
        m['tests_note']= ' | '.join(l for l in t.splitlines() if 'FAILED' in l or 'error' in l)[:200]
    p=subprocess.run(['/verif/tools/with_repo_variant.sh',patch,m['property']],capture_output=True,text=True)
    lines=[l for l in p.stdout.splitlines() if l.startswith(('violated','VIOLATION','OK','INCONCLUSIVE','APPLY'))]
    m['caught']= p.returncode==1
    m['verdict']=' | '.join(lines)[:300]
    print(f"{m['name']:32} {m['property']} tests_pass={m['tests_pass']} caught={m['caught']}  {m['verdict'][:150]}",flush=True)
    json.dump(idx,open(idx_p,'w'),indent=1)
print('missed:',[m['name'] for m in idx if m.get('caught') is False and m.get('tests_pass')])
print('killed by the pinned tests already (not interesting):',[m['name'] for m in idx if m.get('tests_pass') is False])
