#!/bin/bash
# usage: confirm_seed.sh <worktree> <patch.diff> <seed_demo.rs>
# Confirms in a scratch worktree: builds, existing tests pass with the change, the demo fails with
# the change and passes without it. Prints one summary line.
set -u
wt="$1"; patch="$2"; demo="$3"
export CARGO_TARGET_DIR="$wt/target" CARGO_NET_OFFLINE=true
cd "$wt" || exit 9
git checkout -q -- . ; rm -f tests/seed_demo.rs
git apply --whitespace=nowarn "$patch" || { echo "RESULT apply=FAIL"; exit 1; }
build=FAIL; tests=FAIL; demo_with=?; demo_without=?
cargo build --offline >/dev/null 2>&1 && build=ok
out=$(cargo test --workspace --no-fail-fast --offline 2>&1); 
if echo "$out" | grep -q "test result: FAILED"; then tests=FAIL; else
  n=$(echo "$out" | grep -E "^test result: ok" | sed -E 's/.*ok\. ([0-9]+) passed.*/\1/' | paste -sd+ | bc); tests="ok($n)"; fi
cp "$demo" tests/seed_demo.rs
if cargo test --offline --test seed_demo >/tmp/seed_demo_with.log 2>&1; then demo_with=PASSES; else demo_with=fails; fi
git checkout -q -- src Cargo.toml 2>/dev/null
if cargo test --offline --test seed_demo >/tmp/seed_demo_without.log 2>&1; then demo_without=passes; else demo_without=FAILS; fi
rm -f tests/seed_demo.rs; git checkout -q -- .
echo "RESULT apply=ok build=$build existing_tests=$tests demo_with_change=$demo_with demo_without_change=$demo_without"
