claim("C01", "property-based round-trip (parse/write) over model-encoded, pool and mutated packages, proptest shrinking",
      "Generated-input search: every accepted input must re-serialise to its normal form (computed by an independent segmenter) and be a fixpoint; held on all generated cases, no proof of absence.",
      "Trusted: reference segmenter refimpl::fmt, proptest, rustc. Nothing is asserted about which inputs are accepted.")
claim("C04", "boundary-value enumeration + mutation/structure-aware fuzzing of every read-side entry point in isolated worker processes with a counting allocator",
      "Generated-input search with complete boundary products, every truncation and single-byte substitution of small packages, and random hostile headers/cpio archives; oracle = no panic, no abort, no overflow, bounded allocation.",
      "Trusted: the allocation rule constants stated in the evidence; rpm built with overflow checks and debug assertions. One known finding inside the pgp dependency is excluded by signature.")
claim("C16", "property-based differential check of reported offsets against an independent segmenter",
      "Generated-input search over hand-encoded headers of all sizes mod 8, pool packages and mutations; offsets must equal independently computed boundaries of the written bytes.",
      "Trusted: refimpl::fmt::decode.")
