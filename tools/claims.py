claim("C01", "property-based round-trip (parse/write) over model-encoded, pool and mutated packages, proptest shrinking",
      "Generated-input search: every accepted input must re-serialise to its normal form (computed by an independent segmenter) and be a fixpoint; held on all generated cases, no proof of absence.",
      "Trusted: reference segmenter refimpl::fmt, proptest, rustc. Nothing is asserted about which inputs are accepted.")
claim("C04", "boundary-value enumeration + mutation/structure-aware fuzzing of every read-side entry point in isolated worker processes with a counting allocator",
      "Generated-input search with complete boundary products, every truncation and single-byte substitution of small packages, and random hostile headers/cpio archives; oracle = no panic, no abort, no overflow, bounded allocation.",
      "Trusted: the allocation rule constants stated in the evidence; rpm built with overflow checks and debug assertions. One known finding inside the pgp dependency is excluded by signature.")
claim("C16", "property-based differential check of reported offsets against an independent segmenter",
      "Generated-input search over hand-encoded headers of all sizes mod 8, pool packages and mutations; offsets must equal independently computed boundaries of the written bytes.",
      "Trusted: refimpl::fmt::decode.")
claim("C06", "property-based round-trip builder -> write -> parse -> accessors over generated configurations",
      "Generated-input search over valid builder configurations; every supplied value must be returned by its accessor (files: exact OS-string path, mode, owner, flags, caps, link, size, sha256, clamped mtime).",
      "Trusted: harness-side sha2; generator soundness rules (unique normalised destinations, NUL-free strings).")
claim("C07", "property-based differential check of payload iteration against supplied contents and an independent cpio writer",
      "Generated-input search: built packages of all compressors/levels/size classes incl. the hooked large-file format, plus hand-encoded foreign packages with %ghost-omitting, permuted and stripped archives, plus the assets.",
      "Trusted: refimpl::cpio writer, decoder crates. The > 4 GiB path is reached via the verif-hooks feature only.")
claim("C08", "property-based recomputation of all recorded digests from written bytes with independent decompression",
      "Generated-input search biased to files above each compressor's short-write threshold, with sign/clear suffixes.",
      "Trusted: RustCrypto hashes, flate2/zstd/liblzma/bzip2 decoders called directly.")
claim("C09", "property-based validation of emitted packages by an independent strict validator (rpm's hdrblobVerify rules) and cpio parser",
      "Generated-input search over builder configurations and sign/clear histories on built and rpmbuild-made packages; the validator is self-tested on the assets first.",
      "Trusted: refimpl::strict / refimpl::cpio as a faithful restriction of rpm's loader rules to the clauses of the statement.")
claim("C11", "property-based metamorphic check: repeated builds in-process and in fresh processes must be byte-identical; timestamps clamped",
      "Generated-input search over configurations with many non-root owners; 3 in-process + 3 child-process builds (different TZ, cwd, hash seeds) per case.",
      "Schedules are varied only through hash seeds/TZ/cwd; signature times parsed with the pgp crate.")
claim("C13", "bounded-exhaustive differential testing against a transliteration of rpmvercmp + order-axiom checks + random long strings",
      "Complete enumeration of all pairs up to length 3 (quick) / 4 (thorough) over a 12-symbol alphabet, all triples up to length 2, sorted-run criterion; exhaustive for that sub-domain, sampled beyond.",
      "Trusted: refimpl::vercmp as a faithful transliteration of rpm's C code.")
claim("C15", "bounded-exhaustive and random round-trip testing of Display/parse",
      "Complete enumeration of component tuples over a 6-symbol alphabet to length 3, random tuples from the documented character sets, asset NEVRAs, all compression types, arbitrary text for no-panic.",
      "Domain restricted to component values a real package can carry (see evidence assumptions).")
claim("C18", "complete enumeration of the input domain against an independent bit-level oracle",
      "All 65 536 words; i32: windows + stride sweep (quick), all 2^32 values (thorough) - exhaustive, so this is a decision for the enumerated domain.",
      "None beyond rustc.")
claim("C19", "bounded-exhaustive differential testing against a reference acceptor for the stated grammar + random grammar-based strings with injected faults",
      "Complete enumeration of all strings up to 5 (quick) / 6 (thorough) tokens over a 14-token alphabet.",
      "Reference acceptor is three-valued; Unspecified zones are listed in the evidence assumptions.")
claim("C20", "boundary-window enumeration and random sampling against an i128 oracle",
      "Every second in windows around 0, 2^31, 2^32 with sub-second offsets through SystemTime and chrono (UTC and fixed offsets), extremes, random instants, builder mtimes.",
      "Expected value computed from construction parameters.")
claim("C02", "property-based testing with a recording/scripted verifier over generated signature-header shapes + exhaustive single-bit-flip mutation of library-signed packages against real pgp verifiers",
      "Domain A: every Ok outcome is audited against the recorded verifier calls (consulted, all accepted, right bytes, digests match). Domain B: every bit of header and payload of signed packages flipped, with and without attacker-side digest recomputation; must never verify.",
      "Trusted: pgp crate's signature verification for domain B; reference digests.")
claim("C03", "property-based iff-oracle: digests recomputed independently for constructed packages and for every single-bit flip",
      "Constructive subsets of the four digest tags with five corruption kinds and known/unknown algorithms, plus exhaustive bit flips of two packages carrying all four digests with the expectation recomputed from the mutant.",
      "Ambiguous 'recorded' situations (duplicate tags, wrong types) are skipped and counted.")
claim("C10", "model-based testing of operation histories (bounded-exhaustive + random) against a signing-state model",
      "All histories up to length 3 (quick) / 4 (thorough) over six operations from six starting packages, oracle after every step: exactly the model's signer verifies, key id reported, digests verify, header and payload byte-identical.",
      "Key ids derived from the secret keys with the pgp crate.")
claim("C14", "fault enumeration: every failure offset x chunking family on scripted sinks; chunked sources; every truncation offset",
      "Complete enumeration of failure offsets for Package::write and PackageMetadata::write of small packages across 10 chunking/interrupt families; read side with scripted BufRead sources.",
      "Sinks obey the Write contract.", category="fault_enumeration")
claim("C17", "bounded-exhaustive enumeration of destination/capability/level arguments + random setter strings, in isolated worker processes",
      "All destinations up to 6/7 tokens over {/ . .. a b}, all capability strings up to 3 tokens, 24 levels x 4 compressors, arbitrary setter strings; no panic/abort, must-be-error classes are errors, successful builds read back.",
      "Definition of 'cannot be split': std::path parent()/file_name() is None.")
claim("C05", "property-based differential testing of every accessor and typed getter against an independent decoding of generated typed headers",
      "Generated-input search over well-formed headers in which ~100 tags are absent / properly typed / wrongly typed, tag groups absent, consistent or broken; assets decoded independently. Three-valued where the statement is silent.",
      "Trusted: refimpl::fmt layout encoder and decoder. Error variants are not checked.")
claim("C12", "property-based testing of extraction inside a chroot jail with before/after file-system snapshots",
      "Generated-input search: built packages from consistent trees (positive oracle) and hostile hand-encoded packages ('..', absolute names, symlink-then-file, special types, duplicates); each case extracted by a forked, chrooted child; everything outside the target is snapshotted.",
      "Containment is judged inside a chroot jail (uid 0); races are out of scope.")
