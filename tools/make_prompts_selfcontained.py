import json,glob,re,subprocess,sys
props={json.loads(l)['id']:json.loads(l) for l in open('/verif/properties.jsonl')}
for pid in sys.argv[1:]:
    p=props[pid]
    wt=f'/tmp/seed/{pid}'
    subprocess.run(['git','-C','/repo','worktree','add','--detach',wt],check=True,capture_output=True)
    prev=[]
    for d in sorted(glob.glob(f'/verif/seeded/{pid}-*')):
        m=json.load(open(d+'/meta.json'))
        prev.append(f'({len(prev)+1}) "{m["needs_to_manifest"]}"')
    txt=f'''You are helping to evaluate a verification harness for the Rust crate rpm-rs/rpm (pure-Rust RPM package parsing/building/signing library). Your scratch git worktree of the repository is {wt} (work ONLY there; never touch /repo or /verif, never read /verif). Build output must go to {wt}/target (export CARGO_TARGET_DIR={wt}/target) and all cargo commands need --offline (no network).

Here is one semantic property the library is supposed to satisfy:

id: {pid}
title: {p["title"]}
statement: {p["statement"]}
quantified over: {p["quantifier"]["text"]}
anchored in: {", ".join(p["anchors"]["files"])}

TASK: produce a small, realistic change to the library source (src/ only; such as a maintainer could plausibly make in a refactor, optimisation or "clean-up") that BREAKS this property while the crate still compiles and the whole existing test suite still passes (cargo test --workspace --offline with CARGO_TARGET_DIR set as above). The change must need something specific to manifest - an unusual input, a boundary of a size/count/length, a multi-step sequence of operations, a combination of optional settings, a rarely used public entry point, state carried between calls, or two cooperating sites that each look fine alone - not something ordinary use would expose at once. Do not add cfg flags, features, environment lookups or magic constants that only exist to hide the defect; it must look like an honest mistake.

IMPORTANT: other engineers already produced changes for this property that needed: {" ".join(prev)}. Produce something DIFFERENT from all of them: a different mechanism, in a different function or a different clause of the statement, needing a different kind of trigger. Re-read the statement and the 'quantified over' text and pick a part none of them exercised.

Deliverables, in {wt}/out12/ (create it):
 1. patch.diff - output of `git diff` in the worktree (src/ changes only, applies with `git apply` to a clean checkout).
 2. seed_demo.rs - an integration test file (it will be copied to tests/seed_demo.rs; may use the crate's public API, dev-dependencies already in Cargo.toml, and files under tests/assets) that FAILS with your change and PASSES without it. Verify both yourself.
 3. notes.md - 5-10 lines: what was changed, which clause of the property it breaks, exactly what is needed for it to manifest.
Before finishing, confirm: (a) cargo build --offline ok, (b) existing tests all pass with the change, (c) seed_demo fails with and passes without the change. Leave the worktree with the change reverted (git checkout -- . ; remove tests/seed_demo.rs) but keep out12/. Your final reply: one paragraph saying what is needed to manifest. Be quick: aim to finish within 12 minutes.'''
    open(f'/tmp/seed/{pid}.prompt12','w').write(txt)
    print(pid,len(prev))
