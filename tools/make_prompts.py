#!/usr/bin/env python3
"""Writes the prompt for the next round of independent seeding sub-agents.
usage: make_prompts.py <round-number>   -> /tmp/seed/Cxx.prompt<round>
The prompt contains only the property text and a list of what earlier seeds needed to manifest
(so that the next one is different); nothing from /verif's checks is disclosed."""
import json, sys, glob, os, re, subprocess
rnd = int(sys.argv[1])
props = [json.loads(l) for l in open('/verif/properties.jsonl')]
for p in props:
    pid = p['id']
    base = open(f'/tmp/seed/{pid}.prompt5').read()
    head = base.split('IMPORTANT:')[0].replace('out5/', f'out{rnd}/')
    prev = []
    for d in sorted(glob.glob(f'/verif/seeded/{pid}-*')):
        m = json.load(open(d + '/meta.json'))
        files = sorted(set(re.findall(r'^\+\+\+ b/(\S+)', open(d + '/patch.diff').read(), re.M)))
        prev.append(f'({len(prev)+1}) "{m["needs_to_manifest"]}" (touched {", ".join(files)})')
    words = {5: 'five', 6: 'six', 7: 'seven', 8: 'eight'}[len(prev)]
    tail = (f'IMPORTANT: {words} other engineers already produced changes for this property: ' + ' '.join(prev) +
            f'. Produce something DIFFERENT from all of them: a different mechanism, in a different function or a different clause of the property statement, needing a different kind of trigger. '
            "Re-read the statement and the 'quantified over' text and pick a part none of them exercised. Prefer a change that a thorough tester who already covers all of the above would still be likely to miss: "
            'e.g. a defect that depends on the interaction of two features, on a rarely used public entry point or argument type, on a boundary of a size/count/length, on state carried over between two calls, or on a combination of optional settings. '
            f'Put your deliverables in /tmp/seed/{pid}/out{rnd}/ (create it); do not look at the other out*/ directories.')
    open(f'/tmp/seed/{pid}.prompt{rnd}', 'w').write(head + tail)
    print(pid, len(prev))
