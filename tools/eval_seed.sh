#!/bin/bash
# usage: eval_seed.sh <seed-name> <property> <srcdir-with-patch.diff+seed_demo.rs+notes.md> [worktree]
# confirms the seed in a scratch worktree, runs the property's quick check against it, and stores
# everything under /verif/seeded/<seed-name>/
set -u
name="$1"; prop="$2"; src="$3"; wt="${4:-/tmp/seed/$prop}"
dst=/verif/seeded/$name
mkdir -p "$dst"
cp "$src/patch.diff" "$dst/patch.diff"; cp "$src/seed_demo.rs" "$dst/seed_demo.rs"; cp "$src/notes.md" "$dst/notes.md" 2>/dev/null
confirm=$(/verif/tools/confirm_seed.sh "$wt" "$dst/patch.diff" "$dst/seed_demo.rs" | tail -1)
chk=$(/verif/tools/with_repo_variant.sh "$dst/patch.diff" "$prop" quick | grep -E "^(violated|VIOLATION|OK|INCONCLUSIVE|exit=|APPLY)" | cut -c1-400)
python3 - "$name" "$prop" "$confirm" "$chk" <<'PY'
import json,sys,os
name,prop,confirm,chk=sys.argv[1:5]
dst=f"/verif/seeded/{name}"
meta_p=os.path.join(dst,"meta.json")
meta=json.load(open(meta_p)) if os.path.exists(meta_p) else {}
notes=open(os.path.join(dst,"notes.md")).read() if os.path.exists(os.path.join(dst,"notes.md")) else ""
meta.update({"seed":name,"property":prop,"origin":"independent sub-agent given only the property text and a scratch worktree",
 "needs_to_manifest":meta.get("needs_to_manifest",""),
 "confirmed":confirm,
 "check_command":f"git -C /repo apply seeded/{name}/patch.diff && ./check {prop} quick ; git -C /repo checkout -- .",
 "check_result":chk.splitlines(),
 "caught": "exit=1" in chk})
json.dump(meta,open(meta_p,"w"),indent=1)
print(name, prop, confirm)
print(chk)
PY
