#!/bin/bash
# re-runs stored seeds (all, or those whose name matches the arguments) against the current checks
cd /verif
for d in seeded/C*; do
  n=$(basename $d); prop=${n%%-*}
  if [ $# -gt 0 ]; then m=0; for a in "$@"; do [[ "$n" == $a* ]] && m=1; done; [ $m = 1 ] || continue; fi
  r=$(tools/with_repo_variant.sh /verif/$d/patch.diff $prop quick | tail -1)
  echo "$n $r"
done
