#!/usr/bin/env python3
"""Regenerates /verif/MANIFEST.json from the table below (one row per claimed property)."""
import json, os, sys

ROOT = os.path.dirname(os.path.dirname(os.path.abspath(__file__)))

# id -> (category, technique, level text, level note, design ref)
CLAIMED = {}
NOT_YET = {}

def claim(pid, technique, text, note, category="exploration", ref=None):
    CLAIMED[pid] = dict(category=category, technique=technique, text=text, note=note, ref=ref or f"DESIGN.md section 4, {pid}")

exec(open(os.path.join(ROOT, "tools", "claims.py")).read())

props = [json.loads(l) for l in open(os.path.join(ROOT, "properties.jsonl"))]
ids = [p["id"] for p in props]
hooks_commits = [l.strip() for l in open(os.path.join(ROOT, "tools", "hook_commits.txt")) if l.strip()]

checks = []
for pid in ids:
    if pid not in CLAIMED:
        continue
    c = CLAIMED[pid]
    checks.append({
        "property_id": pid,
        "quick_cmd": f"./check {pid} quick",
        "thorough_cmd": f"./check {pid} thorough",
        "evidence_file": f"/verif/evidence/{pid}.json",
        "replay_cmd_template": f"./check replay {pid} {{path}}",
        "engine": "vcheck",
        "level_claimed": {"category": c["category"], "text": c["text"], "design_ref": c["ref"]},
        "level_note": c["note"],
        "technique": c["technique"],
    })

manifest = {
    "version": 1,
    "setup_cmd": "./setup.sh",
    "hooks": {
        "guard": "cargo feature verif-hooks",
        "enable": "the harness depends on rpm = { path = \"/repo\", features = [\"verif-hooks\", \"bzip2-compression\"] }; ./check rebuilds it from /repo's working tree on every invocation",
        "baseline_off_cmd": "cd /repo && cargo test --workspace --no-fail-fast --offline",
        "source_commits": hooks_commits,
        "add_only": True,
    },
    "engines": [
        {
            "name": "vcheck",
            "path": "/verif/harness",
            "serves_properties": sorted(CLAIMED),
            "kind_free_text": "Rust binary: seeded, sharded proptest-driven generation with shrinking to JSON replay files, bounded-exhaustive enumeration, worker-process isolation with a counting allocator, independent reference encoder/decoder/validators as oracles; thorough tiers add libFuzzer targets under /verif/fuzz",
        }
    ],
    "checks": checks,
    "not_applicable": [{"property_id": pid, "reason": NOT_YET.get(pid, "check not built yet")} for pid in ids if pid not in CLAIMED],
    "notes": "Exit codes of every command: 0 held (KNOWN-FINDING lines possible), 1 with a VIOLATION line, 2 inconclusive (build failure, watchdog, vacuity guard). Known findings: /verif/known_findings.json.",
}
json.dump(manifest, open(os.path.join(ROOT, "MANIFEST.json"), "w"), indent=1)
print("claimed:", len(checks), "not claimed:", len(manifest["not_applicable"]))
